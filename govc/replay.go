package main

// Concretisation of solver models into inputs of the unit, and generation of the replay test
// (a Go test injected with `go test -overlay`, calling the real function and the natively compiled
// contract clauses). Nothing here decides an obligation: it only turns a `sat` answer into a
// candidate input that the orchestrator confirms (or not) against the real code.

import (
	"fmt"
	"go/types"
	"math/big"
	"strings"
	"time"

	"golang.org/x/tools/go/ssa"
)

type concCtx struct {
	e     *Engine
	st    *State
	terms []*Term
	idx   map[string]int
	vals  []string
	sizes []*Term // constraints keeping the model small
	pkg   *types.Package
	kb    int // bound on byte-slice lengths
	ke    int // bound on other slice lengths
}

func (c *concCtx) want(t *Term) int {
	k := t.String()
	if i, ok := c.idx[k]; ok {
		return i
	}
	c.idx[k] = len(c.terms)
	c.terms = append(c.terms, t)
	return len(c.terms) - 1
}

func (c *concCtx) big(i int) *big.Int {
	v := c.vals[i]
	n := new(big.Int)
	switch {
	case strings.HasPrefix(v, "#x"):
		n.SetString(v[2:], 16)
	case strings.HasPrefix(v, "#b"):
		n.SetString(v[2:], 2)
	case strings.HasPrefix(v, "(_ bv"):
		f := strings.Fields(v[5:])
		n.SetString(f[0], 10)
	case v == "true":
		n.SetInt64(1)
	}
	return n
}

func (c *concCtx) qual(p *types.Package) string {
	if p == c.pkg {
		return ""
	}
	return p.Name()
}

type builder func() string

// build registers the terms needed to print v (of type t) and returns the printer.
func (c *concCtx) build(v Val, t types.Type, depth int) builder {
	if depth > 6 {
		fail("value too deep to concretise")
	}
	ts := types.TypeString(t, c.qual)
	if w := bvWidth(t); w >= 0 {
		tm := asTerm(v)
		if isFloat(t) {
			fail("float parameter")
		}
		if tm.IsConst() {
			return func() string { return c.scalar(tm.C, w, t, ts) }
		}
		i := c.want(tm)
		return func() string { return c.scalar(c.big(i), w, t, ts) }
	}
	switch u := t.Underlying().(type) {
	case *types.Slice:
		s, ok := v.(SliceV)
		if !ok {
			fail("slice parameter is %T", v)
		}
		return c.buildSlice(s, u.Elem(), ts, false, depth)
	case *types.Basic:
		if isString(t) {
			s := v.(SliceV)
			return c.buildSlice(s, types.Typ[types.Uint8], ts, true, depth)
		}
	case *types.Struct:
		sv, ok := v.(StructV)
		if !ok {
			fail("struct parameter is %T", v)
		}
		var fs []builder
		var names []string
		for i := 0; i < u.NumFields(); i++ {
			fs = append(fs, c.build(sv.F[i], u.Field(i).Type(), depth+1))
			names = append(names, u.Field(i).Name())
		}
		return func() string {
			var sb strings.Builder
			sb.WriteString(ts + "{")
			for i, f := range fs {
				if i > 0 {
					sb.WriteString(", ")
				}
				sb.WriteString(names[i] + ": " + f())
			}
			sb.WriteString("}")
			return sb.String()
		}
	case *types.Pointer:
		if _, isObj := v.(PtrObj); isObj && typeName(u.Elem()) == "bytes.Buffer" {
			// an empty buffer (BufOld is then the empty text); the callee's behaviour does not depend on the old text
			return func() string { return "&bytes.Buffer{}" }
		}
		p, ok := v.(PtrHeap)
		if !ok {
			fail("pointer parameter is %T", v)
		}
		if _, isStruct := u.Elem().Underlying().(*types.Struct); !isStruct {
			fail("pointer to non-struct")
		}
		ri := c.want(p.Ref)
		obj := c.e.loadLoc(c.st, c.e.heapLoc(PtrHeap{Ref: p.Ref, Root: u.Elem()}), u.Elem())
		inner := c.build(obj, u.Elem(), depth+1)
		return func() string {
			if c.big(ri).Sign() == 0 {
				return "nil"
			}
			return "&" + inner()
		}
	}
	fail("cannot concretise a value of type %s", ts)
	return nil
}

func (c *concCtx) scalar(n *big.Int, w int, t types.Type, ts string) string {
	if w == 0 {
		if n.Sign() != 0 {
			return "true"
		}
		return "false"
	}
	if isSigned(t) && n.Bit(w-1) == 1 {
		n = new(big.Int).Sub(n, new(big.Int).Lsh(big.NewInt(1), uint(w)))
	}
	return fmt.Sprintf("%s(%s)", ts, n.String())
}

func (c *concCtx) buildSlice(s SliceV, elem types.Type, ts string, str bool, depth int) builder {
	bi, li := c.want(s.Base), c.want(s.Len)
	if bvWidth(elem) == 8 && !isFloat(elem) {
		n := c.kb
		c.sizes = append(c.sizes, ULe(s.Len, BVu(uint64(n), 64)))
		var bs []int
		for k := 0; k < n; k++ {
			bs = append(bs, c.want(Select(c.st.arrOf(s.Base), Add(s.Off, BVu(uint64(k), 64)), 8)))
		}
		return func() string {
			l := int(c.big(li).Int64())
			if c.big(bi).Sign() == 0 && !str {
				return ts + "(nil)"
			}
			var sb strings.Builder
			sb.WriteString("[]byte{")
			for k := 0; k < l && k < n; k++ {
				if k > 0 {
					sb.WriteString(",")
				}
				fmt.Fprintf(&sb, "%d", c.big(bs[k]).Int64())
			}
			sb.WriteString("}")
			return ts + "(" + sb.String() + ")"
		}
	}
	n := c.ke
	c.sizes = append(c.sizes, ULe(s.Len, BVu(uint64(n), 64)))
	var es []builder
	for k := 0; k < n; k++ {
		p := PtrElemH{S: s, Idx: BVu(uint64(k), 64)}
		ev := c.e.loadLoc(c.st, c.e.elemLoc(p), elem)
		es = append(es, c.build(ev, elem, depth+1))
	}
	return func() string {
		l := int(c.big(li).Int64())
		if c.big(bi).Sign() == 0 {
			return ts + "(nil)"
		}
		var sb strings.Builder
		sb.WriteString(ts + "{")
		for k := 0; k < l && k < n; k++ {
			if k > 0 {
				sb.WriteString(", ")
			}
			sb.WriteString(es[k]())
		}
		sb.WriteString("}")
		return sb.String()
	}
}

// concretise asks the solver for a small model of PC ∧ ¬Goal and prints the unit's parameters as Go expressions.
func (e *Engine) concretise(o *Obligation, tmo time.Duration) {
	fn := e.unitFn
	for _, kb := range []int{48, 320} {
		c := &concCtx{e: e, st: e.entrySt.clone(), idx: map[string]int{}, pkg: fn.Pkg.Pkg, kb: kb, ke: 4}
		c.st.spec = true
		var bs []builder
		for i, p := range fn.Params {
			bs = append(bs, c.build(e.entryArgs[i], p.Type(), 0))
		}
		as := append(append([]*Term{}, o.PC...), Not(o.Goal))
		as = append(as, c.sizes...)
		decl := declsFor(append(append([]*Term{}, as...), c.terms...))
		var full strings.Builder
		full.WriteString(prelude)
		full.WriteString(decl)
		for _, a := range as {
			full.WriteString("(assert " + a.String() + ")\n")
		}
		full.WriteString("(check-sat)\n(get-value (")
		for _, t := range c.terms {
			full.WriteString(t.String() + " ")
		}
		full.WriteString("))\n")
		r := Race(full.String(), tmo, []string{"z3-new", "z3"})
		if r.Status != "sat" {
			o.ReplayNote = fmt.Sprintf("model minimisation (byte slices <= %d): %s", kb, r.Status)
			continue
		}
		vals, ok := parseGetValue(r.Model, len(c.terms))
		if !ok {
			o.ReplayNote = "could not parse get-value output"
			return
		}
		c.vals = vals
		o.Inputs = map[string]string{}
		var argExprs []string
		for i, p := range fn.Params {
			x := bs[i]()
			o.Inputs[p.Name()] = x
			argExprs = append(argExprs, x)
		}
		o.ReplaySrc = e.replayTest(fn, argExprs)
		o.ReplayNote = ""
		return
	}
}

// parseGetValue extracts the n values of a ((t v) (t v) ...) answer, in order.
func parseGetValue(s string, n int) ([]string, bool) {
	i := strings.Index(s, "(")
	if i < 0 {
		return nil, false
	}
	s = s[i+1:]
	var vals []string
	pos := 0
	skipWS := func() {
		for pos < len(s) && (s[pos] == ' ' || s[pos] == '\n' || s[pos] == '\t' || s[pos] == '\r') {
			pos++
		}
	}
	readSexp := func() string {
		skipWS()
		start := pos
		if pos < len(s) && s[pos] == '(' {
			d := 0
			for pos < len(s) {
				if s[pos] == '(' {
					d++
				} else if s[pos] == ')' {
					d--
					if d == 0 {
						pos++
						break
					}
				}
				pos++
			}
			return s[start:pos]
		}
		for pos < len(s) && s[pos] != ' ' && s[pos] != ')' && s[pos] != '\n' {
			pos++
		}
		return s[start:pos]
	}
	for len(vals) < n {
		skipWS()
		if pos >= len(s) || s[pos] != '(' {
			return nil, false
		}
		pos++ // open pair
		readSexp()
		v := readSexp()
		skipWS()
		if pos >= len(s) || s[pos] != ')' {
			return nil, false
		}
		pos++
		vals = append(vals, strings.Join(strings.Fields(v), " "))
	}
	return vals, true
}

// replayTest renders the Go test that runs the real function on the given inputs and evaluates the
// natively compiled contract clauses.
func (e *Engine) replayTest(fn *ssa.Function, args []string) string {
	var sb strings.Builder
	pkg := fn.Pkg.Pkg
	qual := func(p *types.Package) string {
		if p == pkg {
			return ""
		}
		return p.Name()
	}
	sb.WriteString("//go:build verif\n\npackage " + pkg.Name() + "\n\nimport (\n\t\"fmt\"\n\t\"testing\"\n")
	// imports needed by parameter types
	seen := map[string]bool{}
	var walk func(t types.Type)
	walk = func(t types.Type) {
		switch u := t.(type) {
		case *types.Named:
			if p := u.Obj().Pkg(); p != nil && p != pkg && !seen[p.Path()] {
				seen[p.Path()] = true
				fmt.Fprintf(&sb, "\t%q\n", p.Path())
			}
			if st, ok := u.Underlying().(*types.Struct); ok && u.Obj().Pkg() == pkg {
				for i := 0; i < st.NumFields(); i++ {
					walk(st.Field(i).Type())
				}
			}
		case *types.Pointer:
			walk(u.Elem())
		case *types.Slice:
			walk(u.Elem())
		}
	}
	for _, p := range fn.Params {
		walk(p.Type())
	}
	sb.WriteString(")\n\nfunc TestVCReplay(t *testing.T) {\n")
	var names []string
	for i, a := range args {
		fmt.Fprintf(&sb, "\tvar a%d %s = %s\n", i, types.TypeString(fn.Params[i].Type(), qual), a)
		names = append(names, fmt.Sprintf("a%d", i))
	}
	sb.WriteString("\tdefer func() {\n\t\tif r := recover(); r != nil {\n\t\t\tfmt.Printf(\"VCREPLAY panic %v\\n\", r)\n\t\t}\n\t}()\n")
	if req := e.findContract(fn, "requires"); req != nil {
		fmt.Fprintf(&sb, "\tif !%s(%s) {\n\t\tfmt.Println(\"VCREPLAY requires-false\")\n\t\treturn\n\t}\n", req.Name(), strings.Join(names, ", "))
	}
	nres := fn.Signature.Results().Len()
	var rs []string
	for k := 0; k < nres; k++ {
		rs = append(rs, fmt.Sprintf("r%d", k))
	}
	call := fn.Name() + "(" + strings.Join(names, ", ") + ")"
	if fn.Signature.Recv() != nil {
		call = "a0." + fn.Name() + "(" + strings.Join(names[1:], ", ") + ")"
	}
	if nres > 0 {
		fmt.Fprintf(&sb, "\t%s := %s\n", strings.Join(rs, ", "), call)
	} else {
		fmt.Fprintf(&sb, "\t%s\n", call)
	}
	sb.WriteString("\tfmt.Println(\"VCREPLAY returned\")\n")
	all := append(append([]string{}, names...), rs...)
	for _, c := range e.findContracts(fn, "ensures") {
		fmt.Fprintf(&sb, "\tfmt.Println(\"VCREPLAY ensures:%s\", %s(%s))\n", e.clauseName(fn, c), c.Name(), strings.Join(all, ", "))
	}
	sb.WriteString("}\n")
	return sb.String()
}

// ---- bounded native search (a stand-in, never counted as proof) ----
// fuzzTest renders a Go test that draws structured / random inputs, keeps those satisfying the natively compiled
// requires, runs the real function and evaluates the native ensures clauses. It is used to look for a concrete
// failing input when the solver gave none that replays, or when the changed code left the verifiable subset.

func (e *Engine) genExpr(t types.Type, qual types.Qualifier, depth int) (string, bool) {
	if depth > 4 {
		return "", false
	}
	ts := types.TypeString(t, qual)
	if w := bvWidth(t); w >= 0 {
		if isFloat(t) {
			return "", false
		}
		if w == 0 {
			return "(r.Intn(2) == 0)", true
		}
		if isSigned(t) {
			return fmt.Sprintf("%s(vcInt(r, %d))", ts, w), true
		}
		return fmt.Sprintf("%s(vcUint(r, %d))", ts, w), true
	}
	switch u := t.Underlying().(type) {
	case *types.Slice:
		if bvWidth(u.Elem()) == 8 && !isFloat(u.Elem()) {
			return ts + "(vcBytes(r))", true
		}
		el, ok := e.genExpr(u.Elem(), qual, depth+1)
		if !ok {
			return "", false
		}
		return fmt.Sprintf("func() %s { n := r.Intn(4); s := make(%s, 0, n); for i := 0; i < n; i++ { s = append(s, %s) }; return s }()", ts, ts, el), true
	case *types.Basic:
		if isString(t) {
			return ts + "(vcBytes(r))", true
		}
	case *types.Struct:
		var fs []string
		for i := 0; i < u.NumFields(); i++ {
			x, ok := e.genExpr(u.Field(i).Type(), qual, depth+1)
			if !ok {
				return "", false
			}
			fs = append(fs, u.Field(i).Name()+": "+x)
		}
		return ts + "{" + strings.Join(fs, ", ") + "}", true
	case *types.Pointer:
		if _, ok := u.Elem().Underlying().(*types.Struct); ok {
			x, ok := e.genExpr(u.Elem(), qual, depth+1)
			if !ok {
				return "", false
			}
			return "&" + x, true
		}
	}
	return "", false
}

func (e *Engine) fuzzTest(fn *ssa.Function, sets map[string]uint64) string {
	pkg := fn.Pkg.Pkg
	qual := func(p *types.Package) string {
		if p == pkg {
			return ""
		}
		return p.Name()
	}
	var sb strings.Builder
	sb.WriteString("//go:build verif\n\npackage " + pkg.Name() + "\n\nimport (\n\t\"fmt\"\n\t\"math/rand\"\n\t\"os\"\n\t\"strconv\"\n\t\"testing\"\n")
	seen := map[string]bool{}
	var walk func(t types.Type)
	walk = func(t types.Type) {
		switch u := t.(type) {
		case *types.Named:
			if p := u.Obj().Pkg(); p != nil && p != pkg && !seen[p.Path()] {
				seen[p.Path()] = true
				fmt.Fprintf(&sb, "\t%q\n", p.Path())
			}
			if st, ok := u.Underlying().(*types.Struct); ok && u.Obj().Pkg() == pkg {
				for i := 0; i < st.NumFields(); i++ {
					walk(st.Field(i).Type())
				}
			}
		case *types.Pointer:
			walk(u.Elem())
		case *types.Slice:
			walk(u.Elem())
		}
	}
	for _, p := range fn.Params {
		walk(p.Type())
	}
	sb.WriteString(")\n\n")
	sb.WriteString(`func vcUint(r *rand.Rand, w int) uint64 {
	m := uint64(1)<<uint(w) - 1
	if w == 64 {
		m = ^uint64(0)
	}
	switch r.Intn(8) {
	case 0:
		return uint64(r.Intn(4))
	case 1:
		return uint64(r.Intn(300)) & m
	case 2:
		return m - uint64(r.Intn(3))
	case 3:
		return (uint64(1)<<uint(w-1) + uint64(r.Intn(3)) - 1) & m
	case 4:
		return (uint64(1) << uint(r.Intn(w))) & m
	}
	return r.Uint64() & m
}

func vcInt(r *rand.Rand, w int) int64 {
	if w == 64 && r.Intn(3) != 0 {
		return int64(r.Intn(6)) // offsets and counts are small
	}
	v := vcUint(r, w)
	sh := uint(64 - w)
	return int64(v<<sh) >> sh
}

func vcBytes(r *rand.Rand) []byte {
	n := r.Intn(48)
	switch r.Intn(10) {
	case 0:
		n = 0
	case 1:
		n = 250 + r.Intn(80)
	}
	b := make([]byte, n)
	switch r.Intn(7) {
	case 0: // zeros
	case 1:
		for i := range b {
			b[i] = 0xff
		}
	case 2, 3:
		r.Read(b)
	case 4:
		if n > 0 {
			b[r.Intn(n)] = []byte{0x80, 0x01, 0xff, 0x7f, 0x40}[r.Intn(5)]
		}
	case 5:
		for i := range b {
			b[i] = byte(r.Intn(4))
		}
	case 6:
		r.Read(b)
		for i := 0; i < n && i < 6; i++ {
			if r.Intn(2) == 0 {
				b[i] = []byte{0, 0x80, 0xff, 0x7f, 1}[r.Intn(5)]
			}
		}
	}
	if r.Intn(4) == 0 {
		return b[:len(b):len(b)]
	}
	return b
}

`)
	sb.WriteString("func TestVCFuzz(t *testing.T) {\n\tseed, _ := strconv.ParseInt(os.Getenv(\"VERIF_SEED\"), 10, 64)\n\tn, _ := strconv.Atoi(os.Getenv(\"VCFUZZ_N\"))\n\tif n == 0 {\n\t\tn = 200000\n\t}\n\tr := rand.New(rand.NewSource(seed + 1))\n\taccepted, shown := 0, map[string]int{}\n\tfor it := 0; it < n; it++ {\n")
	var names []string
	for i, p := range fn.Params {
		var x string
		if v, ok := sets[p.Name()]; ok {
			if bvWidth(p.Type()) == 0 {
				x = fmt.Sprint(v != 0)
			} else {
				x = fmt.Sprintf("%s(%d)", types.TypeString(p.Type(), qual), v)
			}
		} else {
			g, ok := e.genExpr(p.Type(), qual, 0)
			if !ok {
				return ""
			}
			x = g
		}
		fmt.Fprintf(&sb, "\t\tvar a%d %s = %s\n", i, types.TypeString(p.Type(), qual), x)
		names = append(names, fmt.Sprintf("a%d", i))
	}
	argList := strings.Join(names, ", ")
	var fmtArgs []string
	for range names {
		fmtArgs = append(fmtArgs, "%#v")
	}
	report := func(what string) string {
		return fmt.Sprintf("if shown[%q] < 2 {\n\t\t\t\t\tshown[%q]++\n\t\t\t\t\tfmt.Printf(\"VCFUZZ fail %s inputs: %s\\n\", %s)\n\t\t\t\t}", what, what, what, strings.Join(fmtArgs, " ; "), argList)
	}
	sb.WriteString("\t\tfunc() {\n\t\t\tok := false\n")
	sb.WriteString("\t\t\tdefer func() {\n\t\t\t\tif x := recover(); x != nil && ok {\n\t\t\t\t\t" + report("panic") + "\n\t\t\t\t}\n\t\t\t}()\n")
	if req := e.findContract(fn, "requires"); req != nil {
		fmt.Fprintf(&sb, "\t\t\tif !%s(%s) {\n\t\t\t\treturn\n\t\t\t}\n", req.Name(), argList)
	}
	sb.WriteString("\t\t\tok = true\n\t\t\taccepted++\n")
	nres := fn.Signature.Results().Len()
	var rs []string
	for k := 0; k < nres; k++ {
		rs = append(rs, fmt.Sprintf("r%d", k))
	}
	call := fn.Name() + "(" + argList + ")"
	if fn.Signature.Recv() != nil {
		call = "a0." + fn.Name() + "(" + strings.Join(names[1:], ", ") + ")"
	}
	if nres > 0 {
		fmt.Fprintf(&sb, "\t\t\t%s := %s\n", strings.Join(rs, ", "), call)
	} else {
		fmt.Fprintf(&sb, "\t\t\t%s\n", call)
	}
	all := strings.Join(append(append([]string{}, names...), rs...), ", ")
	for _, c := range e.findContracts(fn, "ensures") {
		fmt.Fprintf(&sb, "\t\t\tif !%s(%s) {\n\t\t\t\t%s\n\t\t\t}\n", c.Name(), all, report("ensures:"+e.clauseName(fn, c)))
	}
	sb.WriteString("\t\t}()\n\t}\n\tfmt.Println(\"VCFUZZ accepted\", accepted, \"of\", n)\n}\n")
	return sb.String()
}
