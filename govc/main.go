package main

// govc — verification-condition generator for a subset of Go (see /verif/DESIGN.md §3).
//
// One invocation verifies one unit: a function of /repo's current working tree against the
// contract functions (vc_<Func>_requires / _ensures_<clause> / _loop<N>_inv / hooks) found in the
// guarded (//go:build verif) files of the same package. Results are written as JSON.

import (
	"encoding/json"
	"flag"
	"fmt"
	"go/types"
	"os"
	"path/filepath"
	"regexp"
	"sort"
	"strings"
	"sync"
	"sync/atomic"
	"time"

	"golang.org/x/tools/go/packages"
	"golang.org/x/tools/go/ssa"
	"golang.org/x/tools/go/ssa/ssautil"
)

const modPath = "github.com/Breeze0806/gobinlog"

func findFunc(pkg *ssa.Package, name string) *ssa.Function {
	if i := strings.Index(name, "$"); i >= 0 { // function literal: Parent$N
		p := findFunc(pkg, name[:i])
		n := 0
		fmt.Sscanf(name[i+1:], "%d", &n)
		if p == nil || n < 1 || n > len(p.AnonFuncs) {
			return nil
		}
		return p.AnonFuncs[n-1]
	}
	if i := strings.Index(name, "."); i >= 0 { // Type.Method
		tn, mn := name[:i], name[i+1:]
		t := pkg.Type(tn)
		if t == nil {
			return nil
		}
		for _, ty := range []types.Type{t.Type(), types.NewPointer(t.Type())} {
			ms := pkg.Prog.MethodSets.MethodSet(ty)
			for k := 0; k < ms.Len(); k++ {
				if ms.At(k).Obj().Name() == mn {
					return pkg.Prog.MethodValue(ms.At(k))
				}
			}
		}
		return nil
	}
	return pkg.Func(name)
}

// OblJSON is the per-obligation record of the result file.
type OblJSON struct {
	Name   string            `json:"name"`
	Status string            `json:"status"` // unsat (discharged) | sat | unknown | timeout
	Solver string            `json:"solver"`
	Dur    float64           `json:"dur_s"`
	Note   string            `json:"note,omitempty"`
	SMT    string            `json:"smt,omitempty"`
	Cut    bool              `json:"behind_cut,omitempty"`
	Inputs map[string]string `json:"inputs,omitempty"` // Go expressions for the unit's parameters (from the solver model)
	Replay string            `json:"replay_test,omitempty"`
	Raw    string            `json:"solver_output,omitempty"`
}

type UnitJSON struct {
	Unit       string         `json:"unit"`
	Pkg        string         `json:"pkg"`
	Func       string         `json:"func"`
	Set        string         `json:"set,omitempty"`
	Paths      int            `json:"paths"`
	Unreached  []string       `json:"unreached_blocks"` // basic blocks of the unit's function that no explored path entered
	Obls       []OblJSON      `json:"obligations"`
	Warnings   []string       `json:"warnings,omitempty"`
	ToolError  string         `json:"tool_error,omitempty"`
	IncQueries int            `json:"pruning_queries"`
	IncTime    float64        `json:"pruning_time_s"`
	LoadS      float64        `json:"load_s"`
	ExecS      float64        `json:"exec_s"`
	DischargeS float64        `json:"discharge_s"`
	SolverS    float64        `json:"solver_time_s"`
	ByBackend  map[string]int `json:"by_backend"`
	Contracts  []string       `json:"contract_functions"`
	Requires   string         `json:"requires_witness,omitempty"`
	Bounded    int            `json:"bounded_unwind,omitempty"`
	Havocked   []string       `json:"havocked_callees,omitempty"`
	Signature  string         `json:"signature"`
	FuzzTest   string         `json:"fuzz_test,omitempty"`
}

var slowFails int32
var caseFn, coverFns string
var skipRe *regexp.Regexp

func main() {
	repo := flag.String("repo", "/repo", "repository root")
	pkgPat := flag.String("pkg", "./replication", "package pattern")
	fname := flag.String("func", "CellBytes", "function under contract")
	trace := flag.Bool("trace", false, "trace instructions")
	bound := flag.Int("bound", 0, "unwinding bound for loops without invariant (0 = loops must carry invariants)")
	timeout := flag.Int("timeout", 20, "solver timeout (s)")
	keep := flag.String("out", "", "directory for .smt2 files")
	jsonOut := flag.String("json", "", "result file")
	havoc := flag.String("havoc", "", "comma separated callees to havoc")
	observer := flag.String("observer", "", "comma separated callees kept abstract as pure functions of their arguments")
	ifacetag := flag.String("ifacetag", "", "Interface=Concrete[,..]: values of the interface type are assumed to have the concrete dynamic type (names as pkg.Type)")
	opq := flag.String("opaque", "", "comma separated spec functions kept abstract")
	assume := flag.String("assume", "", "extra raw SMT assumption over parameter names, e.g. (= typ #x03)")
	skipS := flag.String("skip", "", "regular expression: obligations with a matching name are not sent to a solver and are reported with status assumed")
	flag.StringVar(&caseFn, "case", "", "case split: name of a bool function over the parameters (like requires) assumed in addition to requires")
	flag.StringVar(&coverFns, "covers", "", "comma separated case functions; adds the obligation requires => (case1 || case2 || ...)")
	setv := flag.String("set", "", "bind scalar parameters to constants: name=val,name=val")
	suffix := flag.String("contract", "", "contract variant suffix: use vc_<Func>__<variant>_* instead of vc_<Func>_*")
	second := flag.Bool("second", false, "thorough tier: re-check every discharged obligation with a second solver")
	noReplay := flag.Bool("noreplay", false, "do not concretise models")
	jobs := flag.Int("jobs", 8, "obligations discharged in parallel")
	flag.Parse()
	if *skipS != "" {
		skipRe = regexp.MustCompile("^(" + *skipS + ")$")
	}
	t0 := time.Now()
	res := UnitJSON{Pkg: *pkgPat, Func: *fname, Set: *setv, ByBackend: map[string]int{}, Bounded: *bound}
	res.Unit = *pkgPat + ":" + *fname
	if *setv != "" {
		res.Unit += "[" + *setv + "]"
	}
	if *suffix != "" {
		res.Unit += "{" + *suffix + "}"
	}
	finish := func(code int) {
		if *jsonOut != "" {
			b, _ := json.MarshalIndent(res, "", " ")
			os.WriteFile(*jsonOut, b, 0o644)
		}
		os.Exit(code)
	}
	cfg := &packages.Config{Mode: packages.LoadAllSyntax, Dir: *repo, BuildFlags: []string{"-tags=verif"},
		Env: append(os.Environ(), "GOFLAGS=-mod=mod", "GOPROXY=off", "GOSUMDB=off", "GOTOOLCHAIN=local")}
	pkgs, err := packages.Load(cfg, *pkgPat)
	if err != nil {
		res.ToolError = "load: " + err.Error()
		fmt.Println("TOOL ERROR:", res.ToolError)
		finish(2)
	}
	nerr := 0
	packages.Visit(pkgs, nil, func(p *packages.Package) {
		for _, e := range p.Errors {
			if nerr < 5 {
				res.ToolError += e.Error() + "; "
			}
			nerr++
		}
	})
	if nerr > 0 {
		fmt.Println("TOOL ERROR: load:", res.ToolError)
		finish(2)
	}
	prog, spkgs := ssautil.AllPackages(pkgs, ssa.NaiveForm|ssa.InstantiateGenerics)
	prog.Build()
	e := &Engine{prog: prog, pkgs: map[string]*ssa.Package{}, inc: NewInc(), maxPaths: 20000,
		loopHdr: map[*ssa.Function]map[*ssa.BasicBlock]int{}, loopBody: map[*ssa.BasicBlock]map[*ssa.BasicBlock]bool{},
		bounded: *bound, trace: *trace, warnings: map[string]bool{}, havoc: map[string]bool{},
		recFns: map[*ssa.Function]bool{}, recApps: map[string]recApp{}, recAxioms: map[string][]*Term{}, visited: map[*ssa.BasicBlock]bool{}, recTemplates: map[string]recApp{}, memo: map[string][]Val{},
		opaque: map[string]bool{}, depCache: map[*ssa.Function]map[string]bool{}, leafCache: map[*ssa.Function][]heapLeaf{},
		variant: *suffix}
	for _, o := range strings.Split(*opq, ",") {
		if o != "" {
			e.opaque[o] = true
		}
	}
	for _, h := range strings.Split(*havoc, ",") {
		if h != "" {
			e.havoc[h] = true
			res.Havocked = append(res.Havocked, h)
		}
	}
	for _, p := range prog.AllPackages() {
		if strings.HasPrefix(p.Pkg.Path(), modPath) {
			e.pkgs[p.Pkg.Path()] = p
		}
	}
	e.observer = map[string]bool{}
	for _, o := range strings.Split(*observer, ",") {
		if o != "" {
			e.observer[o] = true
			res.Havocked = append(res.Havocked, "observer:"+o)
		}
	}
	for _, kv := range strings.Split(*ifacetag, ",") {
		if kv == "" {
			continue
		}
		i := strings.Index(kv, "=")
		if i < 0 {
			res.ToolError = "bad -ifacetag " + kv
			finish(2)
		}
		find := func(q string) types.Type {
			j := strings.LastIndex(q, ".")
			for _, p := range prog.AllPackages() {
				if p.Pkg.Name() == q[:j] && strings.HasPrefix(p.Pkg.Path(), modPath) {
					if t := p.Type(q[j+1:]); t != nil {
						return t.Type()
					}
				}
			}
			return nil
		}
		it, ct := find(kv[:i]), find(kv[i+1:])
		if it == nil || ct == nil {
			res.ToolError = "unknown type in -ifacetag " + kv
			fmt.Println("TOOL ERROR:", res.ToolError)
			finish(2)
		}
		ifaceTags[typeName(it)] = ct
		res.Havocked = append(res.Havocked, "assumed dynamic type: "+kv)
	}
	fn := findFunc(spkgs[0], *fname)
	if fn == nil {
		res.ToolError = "no such function " + *fname
		fmt.Println("TOOL ERROR:", res.ToolError)
		finish(2)
	}
	res.Signature = fn.Signature.String()
	e.unitFn = fn
	func() {
		defer func() { recover() }()
		sets := map[string]uint64{}
		for _, kv := range strings.Split(*setv, ",") {
			if i := strings.Index(kv, "="); i > 0 {
				var v uint64
				fmt.Sscanf(kv[i+1:], "%v", &v)
				sets[kv[:i]] = v
			}
		}
		res.FuzzTest = e.fuzzTest(fn, sets)
	}()
	if os.Getenv("GOVC_LOOPS") != "" {
		e.listLoops(fn)
		return
	}
	res.LoadS = time.Since(t0).Seconds()
	if os.Getenv("GOVC_PROGRESS") != "" {
		progressHook = func(i *Inc) {
			names := []string{}
			for _, f := range e.stack {
				names = append(names, f.Name())
			}
			fmt.Fprintf(os.Stderr, "[progress] inc=%d %.1fs paths=%d obls=%d stack=%v\n", i.N, i.T.Seconds(), e.paths, len(e.obls), names)
		}
	}
	debugText = os.Getenv("GOVC_DEBUGTEXT") != ""
	code := 0
	func() {
		defer func() {
			if r := recover(); r != nil {
				if te, ok := r.(toolError); ok {
					res.ToolError = te.msg
					fmt.Println("TOOL ERROR:", te.msg)
					code = 2
					return
				}
				if os.Getenv("GOVC_PANIC") != "" {
					panic(r)
				}
				res.ToolError = fmt.Sprintf("engine panic: %v", r)
				fmt.Println("TOOL ERROR:", res.ToolError)
				code = 2
			}
		}()
		e.verifyUnit(fn, *assume, *setv)
	}()
	for _, c := range e.usedContracts() {
		res.Contracts = append(res.Contracts, c)
	}
	if code != 0 {
		finish(code)
	}
	res.Requires = e.reqWitness
	t1 := time.Now()
	res.ExecS = t1.Sub(t0).Seconds() - res.LoadS
	res.IncQueries, res.IncTime = e.inc.N, e.inc.T.Seconds()
	res.Paths = e.paths
	for _, b := range fn.Blocks {
		if !e.visited[b] && len(b.Instrs) > 0 {
			line := 0
			for _, ins := range b.Instrs {
				if p := ins.Pos(); p.IsValid() {
					line = e.prog.Fset.Position(p).Line
					break
				}
			}
			res.Unreached = append(res.Unreached, fmt.Sprintf("b%d %s line %d", b.Index, b.Comment, line))
		}
	}
	// discharge
	var wg sync.WaitGroup
	sem := make(chan struct{}, *jobs)
	tmo := time.Duration(*timeout) * time.Second
	for k, o := range e.obls {
		if o.Goal.IsTrue() {
			o.Res = Result{Status: "unsat", Solver: "trivial"}
			continue
		}
		if skipRe != nil && skipRe.MatchString(o.Name) {
			// declared as an assumption of this unit by the caller: reported as such, never as discharged
			o.Res = Result{Status: "assumed", Solver: "none"}
			continue
		}
		wg.Add(1)
		go func(k int, o *Obligation) {
			defer wg.Done()
			sem <- struct{}{}
			defer func() { <-sem }()
			if atomic.LoadInt32(&slowFails) >= 6 {
				// the unit has failed already; six obligations that ran into the time limit are reported, the
				// remaining ones are not attempted (this bounds the time a failing unit takes; a unit that holds
				// is never affected)
				o.Res = Result{Status: "not-attempted", Solver: "none", Model: "not attempted: six obligations of this unit already ran into the time limit"}
				return
			}
			defer func() {
				if o.Res.Status == "timeout" || o.Res.Status == "unknown" {
					atomic.AddInt32(&slowFails, 1)
				}
			}()
			as := append(append([]*Term{}, o.PC...), Not(o.Goal))
			script := Script(as, false)
			if *keep != "" {
				os.MkdirAll(*keep, 0o755)
				o.SMT = filepath.Join(*keep, fmt.Sprintf("%04d-%s.smt2", k, strings.NewReplacer(":", "_", "/", "_", " ", "_", "*", "", "(", "", ")", "").Replace(o.Name)))
				os.WriteFile(o.SMT, []byte(script), 0o644)
			}
			o.Res = dischargeOne(as, script, tmo)
			if *second && o.Res.Status == "unsat" && o.Res.Solver != "trivial" {
				// a second, different back end must agree
				first := strings.SplitN(o.Res.Solver, "+", 2)[0]
				var others []string
				for _, s := range []string{"z3-new", "cvc5", "z3"} {
					if s != first {
						others = append(others, s)
					}
				}
				r2 := dischargeWith(as, script, tmo, others)
				if r2.Status == "sat" {
					o.Res = Result{Status: "unknown", Solver: o.Res.Solver + " vs " + r2.Solver, Model: "solver disagreement", Dur: o.Res.Dur + r2.Dur}
				} else if r2.Status == "unsat" {
					o.Res.Solver += " & " + r2.Solver
					o.Res.Dur += r2.Dur
				} else {
					o.Res.Solver += " (second solver: " + r2.Status + ")"
				}
			}
		}(k, o)
	}
	wg.Wait()
	// concretise models of failed obligations
	if !*noReplay {
		nconc := 0
		for _, o := range e.obls {
			if o.Res.Status != "unsat" && o.Res.Status != "assumed" && o.Res.Status != "not-attempted" {
				nconc++
				if nconc > 4 {
					o.ReplayNote = "model not concretised (more than 4 failed obligations in this unit)"
					continue
				}
				func() {
					defer func() {
						if r := recover(); r != nil {
							if te, ok := r.(toolError); ok {
								o.ReplayNote = "no concrete input: " + te.msg
								return
							}
							panic(r)
						}
					}()
					e.concretise(o, 8*time.Second)
				}()
			}
		}
	}
	res.DischargeS = time.Since(t1).Seconds()
	solverErrors.Range(func(k, v interface{}) bool {
		res.ToolError = fmt.Sprintf("solver %v rejected a generated query: %v", v, k)
		return false
	})
	if res.ToolError != "" {
		fmt.Println("TOOL ERROR:", res.ToolError)
		finish(2)
	}
	ok, bad := 0, 0
	byName := map[string][2]int{}
	for _, o := range e.obls {
		c := byName[o.Name]
		oj := OblJSON{Name: o.Name, Status: o.Res.Status, Solver: o.Res.Solver, Dur: o.Res.Dur.Seconds(), Note: o.Note, SMT: o.SMT, Cut: o.Cut}
		if o.Res.Status == "unsat" {
			ok++
			c[0]++
		} else {
			bad++
			c[1]++
			oj.Inputs = o.Inputs
			oj.Replay = o.ReplaySrc
			oj.Raw = o.Res.Model
			if len(oj.Raw) > 4000 {
				oj.Raw = oj.Raw[:4000] + "..."
			}
			if o.ReplayNote != "" {
				oj.Raw += "\n" + o.ReplayNote
			}
			fmt.Printf("FAILED %s  [%s by %s]  %s\n", o.Name, o.Res.Status, o.Res.Solver, o.Note)
			if os.Getenv("GOVC_SHOW") != "" {
				g := o.Goal.String()
				if len(g) > 6000 {
					g = g[:6000] + "..."
				}
				fmt.Println("   GOAL:", g)
			}
			if len(o.Inputs) > 0 {
				var ks []string
				for k := range o.Inputs {
					ks = append(ks, k)
				}
				sort.Strings(ks)
				for _, k := range ks {
					v := o.Inputs[k]
					if len(v) > 300 {
						v = v[:300] + "..."
					}
					fmt.Printf("      %s = %s\n", k, v)
				}
			}
		}
		byName[o.Name] = c
		res.Obls = append(res.Obls, oj)
	}
	names := []string{}
	for n := range byName {
		names = append(names, n)
	}
	sort.Strings(names)
	for _, n := range names {
		fmt.Printf("  %-40s discharged %d  failed %d\n", n, byName[n][0], byName[n][1])
	}
	for w := range e.warnings {
		fmt.Println("warning:", w)
		res.Warnings = append(res.Warnings, w)
	}
	sort.Strings(res.Warnings)
	stats.mu.Lock()
	res.SolverS = stats.Time.Seconds()
	for k, v := range stats.By {
		res.ByBackend[k] = v
	}
	stats.mu.Unlock()
	fmt.Printf("unit %s: paths=%d obligations=%d discharged=%d failed=%d | load %.1fs exec %.1fs (inc queries %d, %.1fs) discharge %.1fs by %v\n",
		res.Unit, e.paths, len(e.obls), ok, bad, res.LoadS, res.ExecS, e.inc.N, e.inc.T.Seconds(), res.DischargeS, stats.By)
	if bad > 0 {
		finish(1)
	}
	finish(0)
}

func dischargeOne(as []*Term, script string, tmo time.Duration) Result {
	return dischargeWith(as, script, tmo, []string{"z3-new", "cvc5", "z3"})
}

// dischargeWith: stage A races the precise query on the first solver against the second solver on the query
// with quantified hypotheses dropped (a sound weakening: only unsat is conclusive; the instances made at reads
// remain) — measured: cvc5 decides in about a second what z3 needs 10-20 s for. Stage B adds the arithmetic
// abstraction (div/rem/mul as uninterpreted functions with range facts; only unsat conclusive), the precise
// query on the remaining solvers.
func dischargeWith(as []*Term, script string, tmo time.Duration, solvers []string) Result {
	hasQ := false
	var noQ []*Term
	for _, a := range as {
		if len(qfNames(a)) > 0 {
			hasQ = true
		}
		if a.hasQ && a != as[len(as)-1] {
			hasQ = true
			continue
		}
		noQ = append(noQ, a)
	}
	tasks := []solverTask{{solver: solvers[0], script: script}}
	// the path's own facts only (no engine-made instances / definitional equations, no quantifiers): most safety
	// and frame obligations need nothing else, and the full hypothesis set can be megabytes
	var core []*Term
	naux := 0
	for i, a := range noQ {
		if _, aux := auxTerms.Load(a); aux && i != len(noQ)-1 {
			naux++
			continue
		}
		core = append(core, a)
	}
	if naux > 8 && len(solvers) > 1 {
		tasks = append(tasks, solverTask{solver: solvers[1], script: ScriptNoQ(core), tag: "+core-hypotheses", onlyUnsat: true})
	}
	if len(solvers) > 1 {
		if hasQ {
			tasks = append(tasks, solverTask{solver: solvers[1], script: ScriptNoQ(noQ), tag: "+no-quantifiers", onlyUnsat: true})
		} else {
			tasks = append(tasks, solverTask{solver: solvers[1], script: script})
		}
	}
	first := tmo / 2
	r := raceTasks(tasks, first)
	if r.Status == "unsat" || r.Status == "sat" {
		return r
	}
	var tb []solverTask
	if abs := ScriptAbs(as); abs != "" {
		tb = append(tb, solverTask{solver: solvers[0], script: abs, tag: "+uf-abstraction", onlyUnsat: true})
	}
	if hasQ && len(solvers) > 1 {
		tb = append(tb, solverTask{solver: solvers[1], script: script})
	}
	if len(solvers) > 2 {
		tb = append(tb, solverTask{solver: solvers[2], script: script})
	}
	if len(tb) == 0 {
		return r
	}
	r2 := raceTasks(tb, tmo-first)
	r2.Dur += r.Dur
	return r2
}

func (e *Engine) listLoops(fn *ssa.Function) {
	e.analyzeLoops(fn)
	type lh struct {
		ord int
		b   *ssa.BasicBlock
	}
	var ls []lh
	for b, o := range e.loopHdr[fn] {
		ls = append(ls, lh{o, b})
	}
	sort.Slice(ls, func(i, j int) bool { return ls[i].ord < ls[j].ord })
	for _, l := range ls {
		pos := ""
		for _, ins := range l.b.Instrs {
			if ins.Pos().IsValid() {
				pos = e.prog.Fset.Position(ins.Pos()).String()
				break
			}
		}
		names, hw, bw := e.loopWrites(fn, l.b)
		fmt.Printf("loop%d  block %d (%s)  %s  writes=%v heap=%v buf=%v\n", l.ord, l.b.Index, l.b.Comment, pos, names, hw, bw)
	}
}

// verifyUnit: symbolic parameters, assume requires, run, check ensures on every return path.
func (e *Engine) verifyUnit(fn *ssa.Function, extra string, setv string) {
	e.unit = fn.String()
	e.unitFn = fn
	st := newState()
	st.assumeT(And(ULt(BVu(1<<32, 64), alloc0), ULt(alloc0, BVu(1<<62, 64))))
	var args []Val
	plainNames = true
	plainUnique = true
	sets := map[string]uint64{}
	for _, kv := range strings.Split(setv, ",") {
		if i := strings.Index(kv, "="); i > 0 {
			var v uint64
			fmt.Sscanf(kv[i+1:], "%v", &v)
			sets[kv[:i]] = v
		}
	}
	for _, p := range fn.Params {
		if v, ok := sets[p.Name()]; ok {
			w := bvWidth(p.Type())
			if w == 0 {
				args = append(args, Bool(v != 0))
			} else {
				args = append(args, BVu(v, w))
			}
			delete(sets, p.Name())
			continue
		}
		args = append(args, st.freshVal(p.Type(), p.Name()))
	}
	// a function literal verified on its own: its captured variables are arbitrary
	var bind []Val
	byName := map[string]Val{}
	for _, fv := range fn.FreeVars {
		et := fv.Type().Underlying().(*types.Pointer).Elem()
		v := st.freshVal(et, fv.Name())
		id := st.newCell(v)
		cellTypes[id] = et
		bind = append(bind, PtrCell{ID: id})
		byName[fv.Name()] = v
	}
	plainNames = false
	plainUnique = false
	for k := range sets {
		fail("-set names %q, which is not a parameter of %s", k, fn.Name())
	}
	e.entryArgs = args
	e.entrySt = st.clone()
	if extra != "" {
		raw := &Term{Leaf: extra, W: 0, Deps: []*Term{st.bytesHeap()}}
		for _, a := range args {
			switch x := a.(type) {
			case *Term:
				raw.Deps = append(raw.Deps, x)
			case SliceV:
				raw.Deps = append(raw.Deps, x.Base, x.Off, x.Len, x.Cap)
			}
		}
		st.assumeT(raw)
	}
	logSpecReads = true
	defer func() { logSpecReads = false }()
	if req := e.findContract(fn, "requires"); req != nil {
		rargs := append([]Val{}, args...)
		for _, p := range req.Params[min(len(args), len(req.Params)):] {
			v, ok := byName[p.Name()]
			if !ok {
				fail("%s: no captured variable named %s", req.Name(), p.Name())
			}
			rargs = append(rargs, v)
		}
		st.assumeT(e.evalContract(st, req, rargs, true))
	} else {
		e.warn("no requires for %s", fn.Name())
	}
	if coverFns != "" {
		// the case split of this function's units is exhaustive: requires => some case
		any := tFalse
		for _, n := range strings.Split(coverFns, ",") {
			cf := e.note(fn.Pkg.Func(n))
			if cf == nil {
				fail("no case function %s", n)
			}
			any = Or(any, e.evalContract(st, cf, args[:min(len(args), len(cf.Params))], false))
		}
		e.oblige(st, "case-cover", any, "the case split is exhaustive under requires")
	}
	if caseFn != "" {
		cf := e.note(fn.Pkg.Func(caseFn))
		if cf == nil {
			fail("no case function %s", caseFn)
		}
		st.assumeT(e.evalContract(st, cf, args[:min(len(args), len(cf.Params))], true))
	}
	if !e.inc.Sat(st.pc) {
		fail("requires of %s is unsatisfiable (vacuous contract)", fn.Name())
	}
	e.reqWitness = "satisfiable (checked by z3-new)"
	logSpecReads = false
	ens := e.findContracts(fn, "ensures")
	if len(ens) == 0 {
		e.warn("no ensures clause for %s", fn.Name())
	}
	if hook := e.note(fn.Pkg.Func("vc_hook_entry_" + contractStem(fn))); hook != nil {
		// ghost initialisation at function entry
		hs := e.execFunc(st, hook, args[:min(len(args), len(hook.Params))], nil, 1)
		if len(hs) != 1 {
			fail("hook %s must be straight-line", hook.Name())
		}
		st = hs[0].st
	}
	outs := e.execFunc(st, fn, args, bind, 0)
	if len(outs) == 0 && len(e.obls) == 0 {
		fail("no feasible return path and no obligation in %s (vacuous)", fn.Name())
	}
	for _, o := range outs {
		cargs0 := append(append([]Val{}, args...), o.ret...)
		for _, c := range ens {
			cargs := cargs0
			// parameters beyond (parameters, results) are bound by name in the returning frame
			for _, p := range c.Params[min(len(cargs0), len(c.Params)):] {
				v, ok := e.lookupName(o.st, o.fr, p.Name())
				if !ok {
					// a local that is not (yet) declared on this return path has its zero value
					v = zeroVal(p.Type())
				}
				cargs = append(append([]Val{}, cargs...), v)
			}
			g := e.evalContract(o.st, c, cargs, false)
			e.oblige(o.st, "ensures:"+e.clauseName(fn, c), g, c.Name())
		}
	}
}
