package main

// Burstall–Bornat heap for structs and non-byte slices: one SMT array per leaf component.
//   F_<Type>_<path>_<comp> : Array Ref τ                      (fields of heap objects)
//   E_<Elem>_<path>_<comp> : Array Ref (Array I64 τ)          (elements of slices, by backing object)

import (
	"fmt"
	"go/types"
	"strings"
)

type (
	// PtrHeap points into a heap struct object (Path navigates nested struct fields).
	PtrHeap struct {
		Ref  *Term
		Root types.Type
		Path []int
	}
	// PtrElemH points into an element of a non-byte slice.
	PtrElemH struct {
		S    SliceV
		Idx  *Term
		Path []int
	}
	// IfaceSym is an interface value whose dynamic type is not known on the path.
	IfaceSym struct {
		ID *Term
		T  types.Type
	}
)

type loc struct {
	kind string // "F" or "E"
	tn   string // type name of the root (struct type or element type)
	ref  *Term
	idx  *Term // for E
	path []int
}

func (l loc) name(comp string) string {
	var sb strings.Builder
	sb.WriteString(l.kind + "_" + l.tn)
	for _, p := range l.path {
		fmt.Fprintf(&sb, "_%d", p)
	}
	if comp != "" {
		sb.WriteString("_" + comp)
	}
	return strings.NewReplacer(".", "_", "*", "P", "[", "_", "]", "_", "/", "_", " ", "", "{", "", "}", "", "(", "", ")", "", ",", "_").Replace(sb.String())
}

func (l loc) sub(i int) loc {
	n := l
	n.path = append(append([]int{}, l.path...), i)
	return n
}

func (s *State) heapArr(l loc, comp, elemSort string) (*Term, string, string) {
	name := l.name(comp)
	sort := "(Array Ref " + elemSort + ")"
	if l.kind == "E" {
		sort = "(Array Ref (Array I64 " + elemSort + "))"
	}
	h, ok := s.heap[name]
	if !ok {
		h = SymSort(name+"0", sort)
		s.heap[name] = h
	}
	return h, name, sort
}

func (s *State) leafGet(l loc, comp string, w int) *Term {
	es := sortOf(&Term{W: w})
	h, name, _ := s.heapArr(l, comp, es)
	if l.kind == "F" {
		t := Select(h, l.ref, w)
		s.entryRefFact(h, name, comp, t, func(h0 *Term) *Term { return Select(h0, l.ref, w) })
		return t
	}
	if s.trace != nil {
		s.trace.reads = append(s.trace.reads, traceRead{l.ref.String(), l.idx})
	}
	s.instantiate(l.ref.String(), l.idx)
	h, _, _ = s.heapArr(l, comp, es) // instantiation may not change the heap, but keep the read after it
	inner := SelectSort(h, l.ref, "(Array I64 "+es+")")
	t := Select(inner, l.idx, w)
	s.entryRefFact(h, name, comp, t, func(h0 *Term) *Term {
		return Select(SelectSort(h0, l.ref, "(Array I64 "+es+")"), l.idx, w)
	})
	return t
}

// entryRefFact: the heap at entry is closed under references — every reference stored in it (pointer, slice base)
// denotes memory that existed before the call, hence lies below every allocation of this call. Stated for the
// entry-heap read underneath the stores of this call, at the place the reference is loaded.
func (s *State) entryRefFact(h *Term, name, comp string, t *Term, read func(h0 *Term) *Term) {
	if comp != "base" && comp != "p" {
		return
	}
	root := h
	for root.core().Op == "store" {
		root = root.core().Args[0]
	}
	if root.Op != "" || root.Leaf != name+"0" {
		return
	}
	t0 := read(root)
	k := t0.String()
	if k == t.String() {
		t.Pre = true // read-over-write may skip the stores of this call's allocations syntactically
	}
	if s.spec {
		// a contract is being evaluated: the fact belongs to the state the evaluation started from
		if s.root == nil || s.root.spec {
			return
		}
		s = s.root
	}
	if s.entryDone == nil {
		s.entryDone = map[string]bool{}
	}
	if s.entryDone[k] {
		return
	}
	s.entryDone[k] = true
	s.assumeT(ULt(t0, alloc0))
}

func (s *State) leafSet(l loc, comp string, w int, v *Term) {
	es := sortOf(&Term{W: w})
	h, name, sort := s.heapArr(l, comp, es)
	var n *Term
	if l.kind == "F" {
		n = Store(h, l.ref, v)
	} else {
		innerSort := "(Array I64 " + es + ")"
		inner := SelectSort(h, l.ref, innerSort)
		ni := Store(inner, l.idx, v)
		ni.Sort = innerSort
		n = Store(h, l.ref, ni)
	}
	n.Sort = sort
	s.heap[name] = n
}

// loadLoc reads a value of type t stored at l.
func (e *Engine) loadLoc(st *State, l loc, t types.Type) Val {
	if w := bvWidth(t); w >= 0 {
		return st.leafGet(l, "v", w)
	}
	switch u := t.Underlying().(type) {
	case *types.Pointer:
		r := st.leafGet(l, "p", 64)
		if typeName(u.Elem()) == "bytes.Buffer" {
			fail("pointer to bytes.Buffer on the heap")
		}
		return PtrHeap{Ref: r, Root: u.Elem()}
	case *types.Slice:
		sl := SliceV{Base: st.leafGet(l, "base", 64), Off: st.leafGet(l, "off", 64), Len: st.leafGet(l, "len", 64), Cap: st.leafGet(l, "cap", 64), Elem: u.Elem()}
		if !st.spec {
			// type invariant of every Go slice value, wherever it is stored
			zero, lim := BVu(0, 64), BVu(1<<40, 64)
			st.assumeT(And(SLe(zero, sl.Off), SLt(sl.Off, lim), SLe(zero, sl.Len), SLe(sl.Len, sl.Cap), SLt(sl.Cap, lim),
				Implies(Eq(sl.Base, zero), Eq(sl.Cap, zero))))
		}
		return sl
	case *types.Basic:
		if isString(t) {
			ln := st.leafGet(l, "len", 64)
			return SliceV{Base: st.leafGet(l, "base", 64), Off: st.leafGet(l, "off", 64), Len: ln, Cap: ln, Elem: types.Typ[types.Uint8], Str: true}
		}
	case *types.Struct:
		sv := StructV{T: t}
		for i := 0; i < u.NumFields(); i++ {
			sv.F = append(sv.F, e.loadLoc(st, l.sub(i), u.Field(i).Type()))
		}
		return sv
	case *types.Interface:
		if isError(t) {
			return ErrV{NonNil: st.leafGet(l, "nonnil", 0), ID: st.leafGet(l, "id", 64)}
		}
		return IfaceSym{ID: st.leafGet(l, "iface", 64), T: t}
	case *types.Signature:
		return FuncSym{ID: st.leafGet(l, "fn", 64), Name: l.name("fn")}
	case *types.Map:
		fail("map stored on the heap")
	case *types.Chan:
		return ChanV{ID: st.leafGet(l, "chid", 64), Cap: st.leafGet(l, "chcap", 64)}
	}
	fail("loadLoc: type %s", typeName(t))
	return nil
}

// storeLoc writes v (of type t) at l.
func (e *Engine) storeLoc(st *State, l loc, t types.Type, v Val) {
	if w := bvWidth(t); w >= 0 {
		st.leafSet(l, "v", w, asTerm(v))
		return
	}
	z := BVu(0, 64)
	switch u := t.Underlying().(type) {
	case *types.Pointer:
		switch p := v.(type) {
		case PtrHeap:
			if len(p.Path) != 0 {
				fail("storing interior pointer")
			}
			st.leafSet(l, "p", 64, p.Ref)
		case NilV:
			st.leafSet(l, "p", 64, z)
		default:
			fail("storeLoc: pointer value %T", v)
		}
		return
	case *types.Slice:
		sl, ok := v.(SliceV)
		if !ok {
			if lv, ok2 := v.(ListV); ok2 && len(lv.E) == 0 {
				sl = SliceV{Base: z, Off: z, Len: z, Cap: z}
			} else {
				fail("storeLoc: slice value %T", v)
			}
		}
		st.leafSet(l, "base", 64, sl.Base)
		st.leafSet(l, "off", 64, sl.Off)
		st.leafSet(l, "len", 64, sl.Len)
		st.leafSet(l, "cap", 64, sl.Cap)
		return
	case *types.Basic:
		if isString(t) {
			sl := v.(SliceV)
			st.leafSet(l, "base", 64, sl.Base)
			st.leafSet(l, "off", 64, sl.Off)
			st.leafSet(l, "len", 64, sl.Len)
			return
		}
	case *types.Struct:
		sv, ok := v.(StructV)
		if !ok {
			fail("storeLoc: struct value %T", v)
		}
		for i := 0; i < u.NumFields(); i++ {
			e.storeLoc(st, l.sub(i), u.Field(i).Type(), sv.F[i])
		}
		return
	case *types.Interface:
		if isError(t) {
			ev := v.(ErrV)
			st.leafSet(l, "nonnil", 0, ev.NonNil)
			st.leafSet(l, "id", 64, ev.ID)
			return
		}
		switch iv := v.(type) {
		case IfaceSym:
			st.leafSet(l, "iface", 64, iv.ID)
			return
		case IfaceV:
			if iv.Tag == nil {
				st.leafSet(l, "iface", 64, z)
				return
			}
		}
	}
	if cv, ok := v.(ChanV); ok {
		st.leafSet(l, "chid", 64, cv.ID)
		st.leafSet(l, "chcap", 64, cv.Cap)
		return
	}
	if _, isChan := t.Underlying().(*types.Chan); isChan {
		if _, ok := v.(NilV); ok {
			st.leafSet(l, "chid", 64, z)
			st.leafSet(l, "chcap", 64, z)
			return
		}
	}
	if _, ok := v.(OpaqueV); ok {
		return
	}
	if fs, ok := v.(FuncSym); ok {
		st.leafSet(l, "fn", 64, fs.ID)
		return
	}
	fail("storeLoc: type %s value %T", typeName(t), v)
}

func typeAtPath(t types.Type, path []int) types.Type {
	for _, p := range path {
		t = t.Underlying().(*types.Struct).Field(p).Type()
	}
	return t
}

func (e *Engine) heapLoc(p PtrHeap) loc {
	return loc{kind: "F", tn: typeName(p.Root), ref: p.Ref, path: p.Path}
}

func (e *Engine) elemLoc(p PtrElemH) loc {
	return loc{kind: "E", tn: typeName(p.S.Elem), ref: p.S.Base, idx: Add(p.S.Off, p.Idx), path: p.Path}
}

// newObject allocates a zero-initialised heap object of type t.
func (e *Engine) newObject(st *State, t types.Type) PtrHeap {
	p := PtrHeap{Ref: st.allocRef(), Root: t}
	e.storeLoc(st, e.heapLoc(p), t, zeroVal(t))
	return p
}
