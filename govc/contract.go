package main

import (
	"regexp"
	"os"
	"fmt"
	"go/token"
	"go/types"
	"sort"
	"strings"

	"golang.org/x/tools/go/ssa"
)

// contractName maps a function to the stem used by its vc_ functions.
func contractStem(fn *ssa.Function) string {
	if p := fn.Parent(); p != nil {
		// function literal: <stem of the enclosing function>_func<N>
		for i, a := range p.AnonFuncs {
			if a == fn {
				return fmt.Sprintf("%s_func%d", contractStem(p), i+1)
			}
		}
	}
	if recv := fn.Signature.Recv(); recv != nil {
		t := recv.Type()
		if p, ok := t.(*types.Pointer); ok {
			t = p.Elem()
		}
		return t.(*types.Named).Obj().Name() + "_" + fn.Name()
	}
	return fn.Name()
}

// stemFor is the prefix of the contract functions of fn; the unit under verification may select a variant.
func (e *Engine) stemFor(fn *ssa.Function) string {
	s := "vc_" + contractStem(fn)
	if fn == e.unitFn && e.variant != "" {
		s += "__" + e.variant
	}
	return s + "_"
}

func (e *Engine) note(f *ssa.Function) *ssa.Function {
	if f != nil {
		if e.used == nil {
			e.used = map[string]bool{}
		}
		e.used[f.Name()] = true
	}
	return f
}

func (e *Engine) usedContracts() []string {
	var out []string
	for k := range e.used {
		out = append(out, k)
	}
	sort.Strings(out)
	return out
}

func (e *Engine) clauseName(fn *ssa.Function, c *ssa.Function) string {
	return strings.TrimPrefix(c.Name(), e.stemFor(fn)+"ensures_")
}

func (e *Engine) findContract(fn *ssa.Function, suffix string) *ssa.Function {
	if fn.Pkg == nil {
		return nil
	}
	return e.note(fn.Pkg.Func(e.stemFor(fn) + suffix))
}

func (e *Engine) findContracts(fn *ssa.Function, prefix string) []*ssa.Function {
	var out []*ssa.Function
	if fn.Pkg == nil {
		return nil
	}
	stem := e.stemFor(fn) + prefix
	for name, m := range fn.Pkg.Members {
		if f, ok := m.(*ssa.Function); ok && strings.HasPrefix(name, stem) {
			if e.variant == "" && strings.Contains(strings.TrimPrefix(name, "vc_"+contractStem(fn)), "__") {
				continue
			}
			out = append(out, e.note(f))
		}
	}
	sort.Slice(out, func(i, j int) bool { return out[i].Name() < out[j].Name() })
	return out
}

// evalContract runs a pure bool-valued Go function on a clone of the state and returns its value as a term.
func (e *Engine) evalContract(st *State, fn *ssa.Function, args []Val, assume bool) *Term {
	s2 := st.clone()
	s2.spec = true
	s2.assume = assume
	s2.goal = !assume
	s2.root = st
	n0 := len(s2.pc)
	savedPaths := e.paths
	outs := e.execFunc(s2, fn, args, nil, 1)
	e.paths = savedPaths
	res := tFalse
	// texts bound by BufIs / SameText in assume mode, per outcome: equal on all outcomes -> bound as is, else a
	// guarded alternative (the outcomes' conditions are mutually exclusive and, res being assumed, exhaustive)
	type bind struct {
		cond *Term
		text []Piece
	}
	bufB := map[int][]bind{}
	txtB := map[string][]bind{}
	var bufOrder []int
	var txtOrder []string
	for _, o := range outs {
		r := asTerm(o.ret[0])
		extra := o.st.pc[n0:]
		res = Or(res, And(append(append([]*Term{}, extra...), r)...))
		if !assume || r.IsFalse() {
			continue
		}
		cond := And(append(append([]*Term{}, extra...), r)...)
		for k, v := range o.st.text {
			if _, ok := st.text[k]; !ok {
				if _, seen := txtB[k]; !seen {
					txtOrder = append(txtOrder, k)
				}
				txtB[k] = append(txtB[k], bind{cond, v})
			}
		}
		// buffer bindings made by BufIs
		for id, ob := range o.st.objs {
			if b, ok := ob.(*BufObj); ok {
				if old, ok2 := st.objs[id].(*BufObj); ok2 && textString(old.Text) != textString(b.Text) {
					if _, seen := bufB[id]; !seen {
						bufOrder = append(bufOrder, id)
					}
					bufB[id] = append(bufB[id], bind{cond, b.Text})
				}
			}
		}
	}
	merge := func(bs []bind) []Piece {
		same := true
		for _, b := range bs[1:] {
			if textString(b.text) != textString(bs[0].text) {
				same = false
			}
		}
		if same {
			return bs[0].text
		}
		var alts []alt
		for _, b := range bs {
			alts = append(alts, alt{Cond: b.cond, P: b.text})
		}
		return []Piece{{K: "alt", Alts: alts}}
	}
	nAssumed := 0
	for _, o := range outs {
		if assume && !asTerm(o.ret[0]).IsFalse() {
			nAssumed++
		}
	}
	for _, k := range txtOrder {
		if len(txtB[k]) == nAssumed {
			st.text[k] = merge(txtB[k])
		}
	}
	for _, id := range bufOrder {
		if len(bufB[id]) != nAssumed {
			// bound on some paths of the clause only: nothing is known about the text in general
			continue
		}
		old := st.objs[id].(*BufObj)
		st.objs[id] = &BufObj{Base: old.Base, Alias: old.Alias, Text: merge(bufB[id])}
	}
	return res
}

// bindByName builds the argument list of an invariant from the frame's named cells / entry values.
func (e *Engine) bindByName(st *State, fr *Frame, inv *ssa.Function) []Val {
	var args []Val
	for _, p := range inv.Params {
		n := p.Name()
		switch {
		case strings.HasPrefix(n, "old_"):
			v, ok := fr.entry[strings.TrimPrefix(n, "old_")]
			if !ok {
				fail("invariant %s: no parameter %s", inv.Name(), n)
			}
			args = append(args, v)
		case strings.HasPrefix(n, "pre_"):
			v, ok := fr.loopPre[n]
			if !ok {
				fail("invariant %s: no loop-entry snapshot %s", inv.Name(), n)
			}
			args = append(args, v)
		default:
			v, ok := e.lookupName(st, fr, n)
			if !ok {
				if strings.HasPrefix(inv.Name(), "vc_hook_") {
					// a hook may name locals that exist on some paths only: zero value elsewhere
					v = zeroVal(p.Type())
				} else {
					fail("invariant %s: no local named %s in %s", inv.Name(), n, fr.fn.Name())
				}
			}
			args = append(args, v)
		}
	}
	return args
}

var cellTypes = map[int]types.Type{}

// enterLoopHeader returns true when the path must stop (back edge closed by the invariant or unwinding bound hit).
func (e *Engine) enterLoopHeader(st *State, fr *Frame, h *ssa.BasicBlock, ord int) bool {
	// the invariant may be written in parts (vc_<F>_loop<N>_inv, vc_<F>_loop<N>_inv_<part>, ...): their conjunction is
	// assumed, each part is its own obligation
	var invs []*ssa.Function
	for _, iv := range e.findContracts(fr.fn, fmt.Sprintf("loop%d_inv", ord)) {
		if rest := strings.TrimPrefix(iv.Name(), e.stemFor(fr.fn)+fmt.Sprintf("loop%d_inv", ord)); rest == "" || strings.HasPrefix(rest, "_") {
			invs = append(invs, iv)
		}
	}
	var inv *ssa.Function
	if len(invs) > 0 {
		inv = invs[0]
	}
	// Contracts are keyed by loop ordinal. When the code's loop structure changed (a loop added in front of an
	// annotated one), the invariant recorded for this ordinal names locals that do not exist at this loop. It is
	// then not used at all: the loop is cut with the trivial invariant (everything it may write is arbitrary at
	// its head, nothing is assumed, its hooks do not run and ghost state is arbitrary). That over-approximates the
	// loop, so obligations that still discharge are proved and the ones that do not are reported.
	trivial := false
	if inv != nil && !st.spec {
		for _, iv := range invs {
			if why := e.unbindable(st, fr, iv); why != "" {
				trivial = true
				e.warn("loop%d of %s: %s -- the loop structure differs from the contract's; the loop is abstracted to arbitrary effects (no invariant assumed, hooks not run)", ord, fr.fn.Name(), why)
			}
		}
		if trivial {
			invs = nil
		}
	}
	obligeInv := func(s *State, kind string) {
		for _, iv := range invs {
			name := fmt.Sprintf("%s:loop%d", kind, ord)
			if part := strings.TrimPrefix(iv.Name(), e.stemFor(fr.fn)+fmt.Sprintf("loop%d_inv", ord)); part != "" {
				name += ":" + strings.TrimPrefix(part, "_")
			}
			g := e.evalContract(s, iv, e.bindByName(s, fr, iv), false)
			e.oblige(s, name, g, iv.Name())
		}
	}
	back := fr.prev != nil && e.loopBody[h][fr.prev]
	if (inv == nil && !trivial) || st.spec {
		fr.iter[h]++
		if fr.iter[h] > e.bounded {
			if !st.spec {
				e.oblige(st, fmt.Sprintf("unwind:loop%d", ord), tFalse, "unwinding bound reached in "+fr.fn.Name())
			}
			return true
		}
		return false
	}
	if back && fr.inLoop[h] {
		if trivial {
			return true
		}
		if hook := fr.fn.Pkg.Func(fmt.Sprintf("vc_hook_loopstep_%s_%d", contractStem(fr.fn), ord)); hook != nil {
			feasibleBefore := e.inc.Sat(st.pc)
			hs := e.execFunc(st, hook, e.bindByName(st, fr, hook), nil, fr.depth+1)
			if len(hs) == 0 && feasibleBefore {
				fail("loop-step hook %s has no feasible path on a feasible iteration (vacuity guard)", hook.Name())
			}
			// the hook may branch: close the back edge on each of its paths
			for _, o := range hs {
				obligeInv(o.st, "inv-step")
			}
			return true
		}
		obligeInv(st, "inv-step")
		return true
	}
	// loop entry: snapshot, establish, havoc, assume
	for _, iv := range invs {
		for _, p := range iv.Params {
			if strings.HasPrefix(p.Name(), "pre_") {
				id, ok := fr.named[strings.TrimPrefix(p.Name(), "pre_")]
				if !ok {
					fail("no local for snapshot %s", p.Name())
				}
				v := st.cells[id]
				if s, ok := v.(SliceV); ok {
					s.Arr = st.arrOf(s.Base)
					v = s
				}
				fr.loopPre[p.Name()] = v
			}
		}
	}
	if hook := fr.fn.Pkg.Func(fmt.Sprintf("vc_hook_loopentry_%s_%d", contractStem(fr.fn), ord)); hook != nil && !trivial {
		hs := e.execFunc(st, hook, e.bindByName(st, fr, hook), nil, fr.depth+1)
		if len(hs) != 1 {
			fail("loop-entry hook must be straight-line")
		}
		*st = *hs[0].st
	}
	obligeInv(st, "inv-init")
	names, heapW, bufW := e.loopWrites(fr.fn, h)
	for n := range names {
		id, ok := fr.named[n]
		if !ok {
			continue
		}
		t := cellTypes[id]
		if t == nil {
			fail("no type for cell %s", n)
		}
		st.noPre = true // a local may point to memory allocated by this call in an earlier iteration
		st.cells[id] = st.freshVal(t, n)
		st.noPre = false
	}
	_ = heapW
	fx := e.loopEffectsOf(fr.fn, h)
	// havoc what the loop may write in objects allocated by this call (pre-existing memory is protected by the
	// frame obligations raised at every store): precise per heap family, one fresh value per allocated object
	for _, ref := range st.allocated {
		if fx.bytes || fx.all {
			st.setArr(ref, SymSort(fresh("hv_arr"), byteArrSort))
			delete(st.text, ref.String())
		}
	}
	for name, harr := range st.heap {
		if name == "Bytes" {
			continue
		}
		hit := fx.all
		for f := range fx.families {
			if strings.HasPrefix(name, f) {
				hit = true
			}
		}
		if !hit {
			continue
		}
		cur := harr
		inner := innerSortOf(cur.Sort)
		for _, ref := range st.allocated {
			var v *Term
			switch {
			case inner == "Bool":
				v = Sym(fresh("hv"), 0)
			case strings.HasPrefix(inner, "(_ BitVec "):
				w := 0
				fmt.Sscanf(inner, "(_ BitVec %d)", &w)
				v = Sym(fresh("hv"), w)
			case inner == "Ref" || inner == "I64":
				v = Sym(fresh("hv"), 64)
			default:
				v = SymSort(fresh("hv_elems"), inner)
			}
			nh := Store(cur, ref, v)
			nh.Sort = harr.Sort
			cur = nh
		}
		st.heap[name] = cur
	}
	ghostW := e.loopMayWriteGhost(fr.fn, h, fx) || trivial
	if os.Getenv("GOVC_DEBUGGHOST") != "" {
		fmt.Printf("loop head b%d of %s: ghost havoc=%v (dyn=%v all=%v)\n", h.Index, fr.fn.Name(), ghostW, fx.dyn, fx.all)
	}
	for n, id := range st.globals {
		// ghost variables are advanced by hooks inside the loop
		if !ghostW {
			break
		}
		if t := cellTypes[id]; t != nil {
			st.noPre = true // a ghost pointer may well name memory allocated by this call
			st.cells[id] = st.freshVal(t, "ghost")
			st.noPre = false
		} else if sv, ok := st.cells[id].(StructV); ok {
			st.noPre = true
			st.cells[id] = st.freshVal(sv.T, "ghost")
			st.noPre = false
		} else if tt, ok := st.cells[id].(*Term); ok {
			st.cells[id] = Sym(fresh("ghost"), tt.W)
		}
		_ = n
	}
	// iterators that advance in the loop: the set of keys produced so far is unknown at the loop head
	if fx.iters || fx.all {
		for id, ob := range st.objs {
			if it, ok := ob.(*IterObj); ok {
				m := st.objs[it.Map].(*MapObj)
				ks := sortOf(&Term{W: m.KeyW})
				st.objs[id] = &IterObj{Map: it.Map, Seen: SymSort(fresh("iterseen"), "(Array "+ks+" Bool)")}
			}
		}
	}
	// map objects written in the loop are havocked as well
	for id, ob := range st.objs {
		if m, ok := ob.(*MapObj); ok && (fx.maps || fx.all) {
			nm := newMapObj(m.T, true)
			nm.Own = m.Own
			st.objs[id] = nm
		}
	}
	if bufW {
		for id, ob := range st.objs {
			if b, ok := ob.(*BufObj); ok {
				freshCtr++
				st.objs[id] = &BufObj{Base: b.Base, Alias: b.Alias, Text: []Piece{{K: "opaque", ID: freshCtr}}}
			}
		}
	}
	fr.inLoop[h] = true
	st.cut = true
	st.raiseWatermark()
	for _, iv := range invs {
		invArgs := e.bindByName(st, fr, iv)
		a := e.evalContract(st, iv, invArgs, true)
		st.assumeT(a)
		for _, v := range invArgs {
			if t, ok := v.(*Term); ok && t.W > 1 && !t.IsConst() {
				st.instantiateLoose(t) // loop counters and bounds named by the invariant
			}
		}
	}
	if !trivial && !e.inc.Sat(st.pc) {
		fail("invariant %s is unsatisfiable after havoc (vacuous)", inv.Name())
	}
	return false
}

// unbindable reports why an invariant cannot be bound at this loop ("" when it can): it names a local or a loop
// snapshot that does not exist here.
func (e *Engine) unbindable(st *State, fr *Frame, iv *ssa.Function) (why string) {
	for _, p := range iv.Params {
		n := p.Name()
		switch {
		case strings.HasPrefix(n, "old_"):
			if _, ok := fr.entry[strings.TrimPrefix(n, "old_")]; !ok {
				return fmt.Sprintf("invariant %s names the parameter %s, which does not exist", iv.Name(), n)
			}
		case strings.HasPrefix(n, "pre_"):
			if _, ok := fr.named[strings.TrimPrefix(n, "pre_")]; !ok {
				if _, ok := fr.loopPre[n]; !ok {
					return fmt.Sprintf("invariant %s names the snapshot %s of a local that does not exist", iv.Name(), n)
				}
			}
		default:
			if _, ok := e.lookupName(st, fr, n); !ok {
				return fmt.Sprintf("invariant %s names the local %s, which does not exist at this loop", iv.Name(), n)
			}
		}
	}
	return ""
}

// ---------- vspec primitives ----------

func (e *Engine) vspecCall(st *State, fr *Frame, name string, args []Val) ([]Outcome, bool) {
	one := func(v ...Val) ([]Outcome, bool) { return []Outcome{{st: st, ret: v}}, true }
	txt := func(v Val) []Piece {
		switch x := v.(type) {
		case TextV:
			return x.P
		}
		fail("expected vspec.Text, got %T", v)
		return nil
	}
	switch name {
	case "Lit":
		t, ok := e.textOf(st, args[0].(SliceV))
		if !ok {
			fail("vspec.Lit of non-literal")
		}
		return one(TextV{t})
	case "Num":
		w := asTerm(args[0])
		if !w.IsConst() {
			fail("vspec.Num with symbolic width")
		}
		return one(TextV{[]Piece{Num(int(w.Uint()), asTerm(args[1]))}})
	case "DecS":
		return one(TextV{[]Piece{{K: "decs", T: asTerm(args[0])}}})
	case "Raw":
		s := args[0].(SliceV)
		arr := s.Arr
		if arr == nil {
			arr = st.arrOf(s.Base)
		}
		return one(TextV{[]Piece{{K: "raw", Base: s.Base, Off: s.Off, Len: s.Len, Arr: arr}}})
	case "Empty":
		return one(TextV{nil})
	case "Float":
		f, pr, bs := asTerm(args[1]), asTerm(args[2]), asTerm(args[3])
		return one(TextV{[]Piece{{K: "float", T: asTerm(args[0]), Fmt: byte(f.Uint()), Prec: int(pr.signedVal().Int64()), Size: int(bs.Uint())}}})
	case "Cat":
		var ps []Piece
		switch l := args[0].(type) {
		case ListV:
			for _, x := range l.E {
				ps = append(ps, txt(x)...)
			}
		case SliceV:
		default:
			fail("Cat args %T", args[0])
		}
		return one(TextV{ps})
	case "(Text).Cat", "(github.com/Breeze0806/gobinlog/internal/vspec.Text).Cat":
		return one(TextV{append(append([]Piece{}, txt(args[0])...), txt(args[1])...)})
	case "SameText":
		s := args[0].(SliceV)
		a, known := e.textOf(st, s)
		if st.assume && !known {
			want := txt(args[1])
			if isZero(s.Off) {
				st.text[s.Base.String()] = want
			} else {
				st.text[viewKey(s)] = want
			}
			if len(want) == 1 && want[0].K == "app" && len(a) == 1 && a[0].K == "raw" {
				// also as a formula, for places that reach the same bytes through other terms
				return one(Eq(viewTextID(a[0]), appTextID(want[0])))
			}
			return one(tTrue)
		}
		e.installUnfold(st)
		return one(MatchText(a, txt(args[1])))
	case "Forall":
		lo, hi := asTerm(args[0]), asTerm(args[1])
		fv, ok := args[2].(FuncV)
		if !ok {
			fail("Forall: not a function literal")
		}
		skolem := st.goal && !st.assume && st.root != nil
		bv := BoundVar(fresh("k"), 64)
		if skolem {
			// proving (forall k. P(k)) is proving P(sk) for a fresh constant; the assumed quantified facts are
			// instantiated at the places P(sk) reads, which is all the solver needs (and all it can digest quickly)
			bv = Sym(fresh("sk"), 64)
		}
		s2 := st.clone()
		s2.spec = true
		s2.goal = skolem // a quantifier directly inside the body of a skolemised one is in a positive position too
		s2.trace = &readTrace{bases: map[string]*Term{}}
		n0 := len(s2.pc)
		saved := e.paths
		outs := e.execFunc(s2, fv.Fn, []Val{bv}, fv.Bind, 1)
		e.paths = saved
		body := tFalse
		for _, o := range outs {
			body = Or(body, And(append(append([]*Term{}, o.st.pc[n0:]...), asTerm(o.ret[0]))...))
		}
		guarded := Implies(And(SLe(lo, bv), SLt(bv, hi)), body)
		if skolem {
			st.root.instantiateLoose(bv)
			done := map[string]bool{}
			for _, rd := range s2.trace.reads {
				for _, f := range allQFacts {
					if f.Key != rd.key || !st.root.qfActive[f.QF.Leaf] {
						continue
					}
					inst := Implies(f.QF, subst(f.Body, f.BV.Leaf, Sub(rd.abs, f.Shift)))
					if k := inst.String(); !done[k] {
						done[k] = true
						st.root.addInst(inst)
					}
				}
			}
			if guarded.C == nil {
				g2 := *guarded
				g2.hasSk = true
				g2.s = ""
				guarded = &g2
			}
			return one(guarded)
		}
		// name the quantified formula: qf <=> forall k. guarded  (the axiom travels with the symbol, see Script)
		all := Forall(bv, guarded)
		if freeBound(guarded, map[string]bool{bv.Leaf: true}) {
			all.hasBound = true
			for _, rd := range s2.trace.reads {
				if rd.abs.hasBound {
					all.QReads = append(all.QReads, rd)
				}
			}
			// a quantifier nested in another one and depending on its variable cannot be named by a constant
			return one(all)
		}
		if q, ok := lookupNamedQ(all); ok {
			return one(q)
		}
		qf := &Term{Leaf: fresh("qf"), W: 0, QDef: all}
		rememberNamedQ(all, qf)
		registerQFacts(qf, bv, guarded, s2.trace.reads)
		return one(qf)
	case "Seen16":
		// Seen16(m, k): the iteration over m that is in progress has already produced key k
		mv, ok := args[0].(MapV)
		if iv, isI := args[0].(IfaceV); isI {
			mv, ok = iv.V.(MapV)
		}
		if !ok {
			fail("Seen16: not a map")
		}
		var it *IterObj
		best := -1
		for id, ob := range st.objs {
			if io, isIt := ob.(*IterObj); isIt && io.Map == mv.ID && id > best {
				best, it = id, io
			}
		}
		if it == nil {
			fail("Seen16: no iteration over this map is in progress")
		}
		return one(Select(it.Seen, mapKeyTerm(args[1]), 0))
	case "ReaderPos":
		r, _ := e.readerOf(st, args[0])
		return one(r.Pos)
	case "Exists":
		// Exists(lo, hi, p) is the negation of "for all k in [lo, hi): not p(k)"; the universal fact is named and
		// never skolemised, so the result may be used in any position
		lo, hi := asTerm(args[0]), asTerm(args[1])
		fv, ok := args[2].(FuncV)
		if !ok {
			fail("Exists: not a function literal")
		}
		bv := BoundVar(fresh("k"), 64)
		s2 := st.clone()
		s2.spec = true
		s2.goal = false // (the body of Exists sits under a negation)
		s2.trace = &readTrace{bases: map[string]*Term{}}
		n0 := len(s2.pc)
		saved := e.paths
		outs := e.execFunc(s2, fv.Fn, []Val{bv}, fv.Bind, 1)
		e.paths = saved
		body := tFalse
		for _, o := range outs {
			body = Or(body, And(append(append([]*Term{}, o.st.pc[n0:]...), asTerm(o.ret[0]))...))
		}
		guarded := Implies(And(SLe(lo, bv), SLt(bv, hi)), Not(body))
		all := Forall(bv, guarded)
		if freeBound(guarded, map[string]bool{bv.Leaf: true}) {
			all.hasBound = true
			for _, rd := range s2.trace.reads {
				if rd.abs.hasBound {
					all.QReads = append(all.QReads, rd)
				}
			}
			return one(Not(all))
		}
		qf := &Term{Leaf: fresh("qf"), W: 0, QDef: all}
		registerQFacts(qf, bv, guarded, s2.trace.reads)
		return one(Not(qf))
	case "ForallKeys", "ForallKeys16":
		// ForallKeys(m, p): p(k) for every key k (of the key type's full range; p itself says "if present")
		mv, ok := args[0].(MapV)
		if iv, isI := args[0].(IfaceV); isI {
			mv, ok = iv.V.(MapV)
		}
		fv, ok2 := args[1].(FuncV)
		if !ok || !ok2 {
			fail("ForallKeys: need a map and a function literal")
		}
		skolem := st.goal && !st.assume && st.root != nil
		kw := st.objs[mv.ID].(*MapObj).KeyW
		bv := BoundVar(fresh("k"), kw)
		if skolem {
			bv = Sym(fresh("sk"), kw)
		}
		// the key as a Go value: a scalar, or an array of bytes (first element = most significant byte of the key term)
		var keyVal Val = bv
		if at, isArr := fv.Fn.Params[len(fv.Fn.Params)-1].Type().Underlying().(*types.Array); isArr {
			av := ArrayV{T: fv.Fn.Params[len(fv.Fn.Params)-1].Type()}
			for j := 0; j < int(at.Len()); j++ {
				hi := kw - 8*j - 1
				el := Extract(hi, hi-7, bv)
				av.E = append(av.E, el)
			}
			keyVal = av
		}
		s2 := st.clone()
		s2.spec = true
		s2.goal = skolem // a quantifier directly inside the body of a skolemised one is in a positive position too
		s2.trace = &readTrace{bases: map[string]*Term{}}
		n0 := len(s2.pc)
		saved := e.paths
		outs := e.execFunc(s2, fv.Fn, []Val{keyVal}, fv.Bind, 1)
		e.paths = saved
		body := tFalse
		for _, o := range outs {
			body = Or(body, And(append(append([]*Term{}, o.st.pc[n0:]...), asTerm(o.ret[0]))...))
		}
		if skolem {
			st.root.keySk = append(st.root.keySk[:len(st.root.keySk):len(st.root.keySk)], bv)
			e.instantiateAtReads(st, s2.trace.reads)
			st.root.instantiateLoose(bv)
			if body.C == nil {
				b2 := *body
				b2.hasSk = true
				b2.s = ""
				body = &b2
			}
			return one(body)
		}
		all := Forall(bv, body)
		qf := &Term{Leaf: fresh("qf"), W: 0, QDef: all}
		qfMu.Lock()
		allQFacts = append(allQFacts, &QFact{QF: qf, Key: fmt.Sprintf("map|%d", mv.ID), Shift: BVu(0, kw), BV: bv, Body: body})
		qfMu.Unlock()
		return one(qf)
	case "BufOld":
		_, id := e.bufOf(st, args[0])
		old, ok := st.bufOld[id]
		if !ok {
			fail("vspec.BufOld of a buffer that is not a parameter")
		}
		return one(TextV{old})
	case "BufIs":
		b, id := e.bufOf(st, args[0])
		want := txt(args[1])
		if debugText {
			fmt.Printf("BufIs assume=%v id=%d have=%s want=%s\n", st.assume, id, abbrev(textString(b.Text)), abbrev(textString(want)))
		}
		if st.assume && len(b.Text) == 1 && b.Text[0].K == "opaque" {
			st.objs[id] = &BufObj{Base: b.Base, Alias: b.Alias, Text: want}
			return one(tTrue)
		}
		e.installUnfold(st)
		return one(MatchText(b.Text, want))
	case "Window":
		out, data := args[0].(SliceV), args[1].(SliceV)
		lo, hi := asTerm(args[2]), asTerm(args[3])
		zero := BVu(0, 64)
		return one(And(SLe(zero, lo), SLe(lo, hi), SLe(hi, data.Len), Eq(out.Len, Sub(hi, lo)),
			Or(Eq(hi, lo), And(Eq(out.Base, data.Base), Eq(out.Off, Add(data.Off, lo))))))
	case "EqBytes", "EqStr":
		a, b := args[0].(SliceV), args[1].(SliceV)
		return one(e.eqBytes(st, a, b))
	case "SameStr":
		s := args[0].(SliceV)
		a, _ := e.textOf(st, s)
		e.installUnfold(st)
		return one(MatchText(a, txt(args[1])))
	case "Owned":
		// x (a slice or pointer) is nil or memory allocated by the current call
		var ref *Term
		v := args[0]
		if iv, ok := v.(IfaceV); ok {
			v = iv.V
		}
		switch x := v.(type) {
		case SliceV:
			ref = x.Base
		case PtrHeap:
			ref = x.Ref
		case NilV:
			return one(tTrue)
		case MapV:
			// a map made by this call all of whose values are memory of this call (maintained by the engine at
			// every update)
			return one(Bool(st.objs[x.ID].(*MapObj).Own))
		default:
			fail("vspec.Owned of %T", v)
		}
		return one(Or(Eq(ref, BVu(0, 64)), And(ULt(alloc0, ref), ULe(ref, st.watermark()))))
	case "SameSlice":
		// the same slice value (same memory, same window), whatever the element type
		un := func(v Val) Val {
			if iv, ok := v.(IfaceV); ok {
				return iv.V
			}
			return v
		}
		a, ok1 := un(args[0]).(SliceV)
		b, ok2 := un(args[1]).(SliceV)
		if !ok1 || !ok2 {
			fail("vspec.SameSlice of %T, %T", args[0], args[1])
		}
		return one(And(Eq(a.Base, b.Base), Eq(a.Off, b.Off), Eq(a.Len, b.Len)))
	case "PrivateError":
		// the error value is a sentinel created by errors.New in its own package's initialisation: no other package
		// (a transport, a driver) can ever return it
		ev, ok := args[0].(ErrV)
		return one(Bool(ok && strings.HasPrefix(ev.ID.Leaf, "private!")))
	case "Watermark":
		// all memory allocated by the call so far has a reference at most this value
		return one(st.watermark())
	case "BaseOf":
		v := args[0]
		if iv, ok := v.(IfaceV); ok {
			v = iv.V
		}
		switch x := v.(type) {
		case SliceV:
			return one(x.Base)
		case PtrHeap:
			return one(x.Ref)
		case NilV:
			return one(BVu(0, 64))
		}
		fail("vspec.BaseOf of %T", v)
	case "Fresh":
		out := args[0].(SliceV)
		return one(Or(Eq(out.Base, BVu(0, 64)), ULt(alloc0, out.Base)))
	case "FreshOrWithin":
		out, data := args[0].(SliceV), args[1].(SliceV)
		return one(Or(Eq(out.Base, BVu(0, 64)), Eq(out.Base, data.Base), ULt(alloc0, out.Base)))
	case "LocalYMDHMS":
		var out []Val
		for _, f := range []string{"tmYear", "tmMonth", "tmDay", "tmHour", "tmMinute", "tmSecond"} {
			DeclareUF(f, []string{"I64"}, "I64")
			u := UF(f, 64, asTerm(args[0]))
			st.assumeT(timeRange(f, u))
			out = append(out, u)
		}
		return one(out...)
	case "App":
		// abstract recursive spec text: App(name, args...)
		nm, _ := e.textOf(st, args[0].(SliceV))
		var ts []*Term
		if l, ok := args[1].(ListV); ok {
			for _, x := range l.E {
				ts = append(ts, asTerm(x.(IfaceV).V))
			}
		}
		return one(TextV{[]Piece{{K: "app", S: nm[0].S, Args: ts}}})
	}
	fail("vspec.%s not modelled", name)
	return nil, false
}

func (e *Engine) installUnfold(st *State) {
	validHook = func(c *Term) bool { return e.valid(st, c) }
	unfoldHook = func(p Piece) ([]alt, bool) {
		fn, ok := p.Fn.(*ssa.Function)
		if !ok || fn == nil || e.opaque[fn.Name()] {
			return nil, false // opaque specification functions are never unfolded: equal arguments or nothing
		}
		base := st.clone()
		n0 := len(base.pc)
		outs := e.unfoldOnce(base, fn, p.ArgV)
		var alts []alt
		for _, o := range outs {
			tv, ok := o.ret[0].(TextV)
			if !ok {
				return nil, false
			}
			alts = append(alts, alt{Cond: And(o.st.pc[n0:]...), P: tv.P})
		}
		return alts, true
	}
}

// eqBytes: same length and same contents (extensional; trivial when both views read the same array at the same offset).
func (e *Engine) eqBytes(st *State, a, b SliceV) *Term {
	arrA, arrB := a.Arr, b.Arr
	if arrA == nil {
		arrA = st.arrOf(a.Base)
	}
	if arrB == nil {
		arrB = st.arrOf(b.Base)
	}
	if arrA.String() == arrB.String() && a.Off.String() == b.Off.String() {
		return Eq(a.Len, b.Len)
	}
	return And(Eq(a.Len, b.Len), contentEq(arrA, a.Off, arrB, b.Off, a.Len))
}

// instantiateAtReads: the body of a skolemised quantified goal read memory at these places; the active quantified
// hypotheses about the same memory are instantiated there (into the real state the goal is evaluated from).
func (e *Engine) instantiateAtReads(st *State, reads []traceRead) {
	done := map[string]bool{}
	// a goal quantified over map keys is skolemised with a key constant sk; the case "sk is the key the iteration in
	// progress has just produced" needs the hypotheses about that key's data: the reads are also tried with sk
	// replaced by each such key (any instance of a hypothesis is valid)
	all := append([]traceRead{}, reads...)
	for _, sk := range st.root.keySk {
		for _, ik := range st.root.iterKeys {
			if sk.W != ik.W {
				continue
			}
			for _, rd := range reads {
				if !strings.Contains(rd.key, sk.Leaf) && !strings.Contains(rd.abs.String(), sk.Leaf) {
					continue
				}
				all = append(all, traceRead{replaceToken(rd.key, sk.Leaf, ik.Leaf), subst(rd.abs, sk.Leaf, ik)})
			}
		}
	}
	reads = all
	for _, rd := range reads {
		for _, f := range allQFacts {
			if f.Key != rd.key || !st.root.qfActive[f.QF.Leaf] {
				continue
			}
			inst := Implies(f.QF, subst(f.Body, f.BV.Leaf, Sub(rd.abs, f.Shift)))
			if k := inst.String(); !done[k] {
				done[k] = true
				st.root.addInst(inst)
			}
		}
	}
}

// freeBound reports whether t mentions a quantifier-bound variable not in own (and not bound inside t itself).
func freeBound(t *Term, own map[string]bool) bool {
	if t.C != nil || (!t.hasBound && !t.hasQ) {
		return false
	}
	if t.Op == "" {
		return t.hasBound && !own[t.Leaf]
	}
	if t.Op == "forall" {
		inner := map[string]bool{t.Args[0].Leaf: true}
		for k := range own {
			inner[k] = true
		}
		return freeBound(t.Args[1], inner)
	}
	for _, a := range t.Args {
		if freeBound(a, own) {
			return true
		}
	}
	return false
}

// registerQFacts remembers, for the named quantified formula qf <=> forall bv. body, the memory its body reads at
// an index of the form shift + bv, so that the engine can instantiate it where that memory is read.
func registerQFacts(qf, bv, body *Term, reads []traceRead) {
	seenF := map[string]bool{}
	loose := len(reads) == 0
	for _, rd := range reads {
		if rd.abs.W != bv.W {
			// a read at a key of another width (a map read at a 16-byte key inside a quantifier over indices): it
			// cannot be of the form shift + k
			continue
		}
		shift := subst(rd.abs, bv.Leaf, BVu(0, 64))
		if Add(shift, bv).String() != rd.abs.String() && Add(bv, shift).String() != rd.abs.String() {
			// not of the form shift + k (k scaled, or behind a case split): no read site determines the instance;
			// the fact is instantiated at loop counters and at the skolem constants of goals instead
			if rd.abs.hasBound {
				loose = true
			}
			continue
		}
		id := rd.key + "|" + shift.String()
		if seenF[id] {
			continue
		}
		seenF[id] = true
		qfMu.Lock()
		allQFacts = append(allQFacts, &QFact{QF: qf, Key: rd.key, Shift: shift, BV: bv, Body: body})
		qfMu.Unlock()
	}
	if loose {
		qfMu.Lock()
		looseQFacts = append(looseQFacts, &QFact{QF: qf, BV: bv, Body: body})
		qfMu.Unlock()
	}
}

// instantiateLoose assumes, in state s, the instances at index term k of the active quantified facts whose
// instances no memory read determines.
func (s *State) instantiateLoose(k *Term) {
	if k.W <= 0 || len(s.qfActive) == 0 {
		return
	}
	qfMu.Lock()
	fs := append([]*QFact{}, looseQFacts...)
	qfMu.Unlock()
	for n, f := range fs {
		if !s.qfActive[f.QF.Leaf] || f.BV.W != k.W {
			continue
		}
		id := fmt.Sprintf("L%d|%s", n, k.String())
		if s.qdone == nil {
			s.qdone = map[string]bool{}
		}
		if s.qdone[id] {
			continue
		}
		s.qdone[id] = true
		s.addInst(Implies(f.QF, subst(f.Body, f.BV.Leaf, k)))
	}
}

var liftCache = map[string]*Term{}

// liftInner names the closed quantified subformulas of an instance (inner quantifiers of a nested Forall become
// closed once the outer variable is instantiated), so that they take part in engine-side instantiation.
func liftInner(t *Term) *Term {
	if t.C != nil || t.Op == "" || (!t.hasQ && !t.hasBound) {
		return t
	}
	if t.Op == "forall" {
		if t.hasBound || len(t.QReads) == 0 || freeBound(t, map[string]bool{}) {
			return t
		}
		k := t.String()
		qfMu.Lock()
		q, ok := liftCache[k]
		qfMu.Unlock()
		if ok {
			return q
		}
		q = &Term{Leaf: fresh("qf"), W: 0, QDef: t}
		registerQFacts(q, t.Args[0], t.Args[1], t.QReads)
		qfMu.Lock()
		liftCache[k] = q
		qfMu.Unlock()
		return q
	}
	changed := false
	args := make([]*Term, len(t.Args))
	for i, a := range t.Args {
		args[i] = liftInner(a)
		if args[i] != a {
			changed = true
		}
	}
	if !changed {
		return t
	}
	switch t.Op {
	case "and":
		return And(args...)
	case "or":
		return Or(args...)
	case "not":
		return Not(args[0])
	}
	return finish(&Term{Op: t.Op, Args: args, W: t.W, Sort: t.Sort})
}

// loopMayWriteGhost: ghost variables are written by hooks only. A loop can change them if a loop-step hook is
// attached to it or to a loop nested in it, or if its body makes a call that can run a hook (a call through a
// function value, or any call when the package declares call / callback / channel / interface / goroutine hooks
// or ghost-modifying contracts).
func (e *Engine) loopMayWriteGhost(fn *ssa.Function, h *ssa.BasicBlock, fx *loopEffects) bool {
	stem := contractStem(fn)
	if fn.Pkg == nil {
		return true
	}
	for hb, ord := range e.loopHdr[fn] {
		if hb == h || e.loopBody[h][hb] {
			if fn.Pkg.Func(fmt.Sprintf("vc_hook_loopstep_%s_%d", stem, ord)) != nil {
				return true
			}
		}
	}
	if fx.dyn || fx.all {
		return true
	}
	// a call in the body can run a hook only if a hook or a ghost-modifying contract is declared for that callee
	// (followed through callees that are inlined); channel operations, goroutines and interface calls only if a hook
	// of that kind exists in the package at all
	has := func(prefix string) bool {
		for name := range fn.Pkg.Members {
			if strings.HasPrefix(name, prefix) {
				return true
			}
		}
		return false
	}
	chanHooks, goHooks, ifaceHooks := has("vc_hook_chan_"), has("vc_hook_go_"), has("vc_hook_iface_")
	seen := map[*ssa.Function]bool{}
	var calleeMay func(f *ssa.Function, depth int) bool
	var blocksMay func(blocks []*ssa.BasicBlock, depth int) bool
	calleeMay = func(f *ssa.Function, depth int) bool {
		if f == nil || f.Pkg == nil {
			return false
		}
		stem2 := contractStem(f)
		if f.Pkg.Func("vc_hook_call_"+stem2) != nil || f.Pkg.Func("vc_"+stem2+"_modifies_ghost") != nil {
			return true
		}
		if e.pkgs[f.Pkg.Pkg.Path()] == nil || f.Blocks == nil || seen[f] || depth > 4 {
			return false
		}
		if e.findContract(f, "requires") != nil || len(e.findContracts(f, "ensures")) > 0 {
			return false // used through its contract, which declares no ghost effect
		}
		seen[f] = true
		return blocksMay(f.Blocks, depth+1)
	}
	blocksMay = func(blocks []*ssa.BasicBlock, depth int) bool {
		for _, b := range blocks {
			for _, ins := range b.Instrs {
				switch x := ins.(type) {
				case *ssa.Call:
					if x.Call.IsInvoke() {
						if ifaceHooks {
							return true
						}
					} else if calleeMay(x.Call.StaticCallee(), depth) {
						return true
					}
				case *ssa.Defer:
					if calleeMay(x.Call.StaticCallee(), depth) {
						return true
					}
				case *ssa.Go:
					if goHooks {
						return true
					}
				case *ssa.Send, *ssa.Select:
					if chanHooks {
						return true
					}
				case *ssa.UnOp:
					if x.Op == token.ARROW && chanHooks {
						return true
					}
				}
			}
		}
		return false
	}
	var body []*ssa.BasicBlock
	for b := range e.loopBody[h] {
		body = append(body, b)
	}
	return blocksMay(body, 0)
}

// Named quantified formulas are shared: the same formula (up to the names of its bound variables) evaluated twice
// — in a caller's requires and again as a callee's precondition at a call — gets the same symbol, so that the
// obligation is closed propositionally.
var namedQ = map[string]*Term{}

var boundNameRe = regexp.MustCompile(`(^|[^a-z])(k![0-9]+)`)

func canonQ(t *Term) string {
	s := t.String()
	names := map[string]string{}
	return boundNameRe.ReplaceAllStringFunc(s, func(m string) string {
		i := strings.Index(m, "k!")
		n := m[i:]
		if _, ok := names[n]; !ok {
			names[n] = fmt.Sprintf("k?%d", len(names))
		}
		return m[:i] + names[n]
	})
}

func lookupNamedQ(all *Term) (*Term, bool) {
	qfMu.Lock()
	defer qfMu.Unlock()
	q, ok := namedQ[canonQ(all)]
	return q, ok
}

func rememberNamedQ(all, qf *Term) {
	qfMu.Lock()
	defer qfMu.Unlock()
	namedQ[canonQ(all)] = qf
}
