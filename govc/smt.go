package main

import (
	"bufio"
	"context"
	"fmt"
	"io"
	"os"
	"os/exec"
	"sort"
	"strings"
	"sync"
	"time"
)

// ---- global declaration registry (uninterpreted functions, extra sorts) ----

type ufDecl struct {
	name string
	args []string
	ret  string
}

var (
	ufMu    sync.Mutex
	ufDecls = map[string]ufDecl{}
	ufOrder []string
	axioms  []*Term // global axioms (quantified), asserted in final obligations only
)

func DeclareUF(name string, args []string, ret string) {
	ufMu.Lock()
	defer ufMu.Unlock()
	if _, ok := ufDecls[name]; ok {
		return
	}
	ufDecls[name] = ufDecl{name, args, ret}
	ufOrder = append(ufOrder, name)
}

const prelude = `(set-option :produce-models true)
(set-logic ALL)
(declare-sort SeqId 0)
(define-sort Ref () (_ BitVec 64))
(define-sort I64 () (_ BitVec 64))
(define-sort ByteArr () (Array (_ BitVec 64) (_ BitVec 8)))
`

func declsFor(terms []*Term) string { return declsWith(terms, nil, true) }

// declsWith declares every free symbol of the terms; abbreviations (leaf.Def != nil) become define-fun, emitted
// after everything their definitions mention. render, if given, renders definition bodies (used by the
// arithmetic abstraction).
func declsWith(terms []*Term, render func(*Term) string, withQAxioms bool) string {
	leaves := map[string]*Term{}
	for _, t := range terms {
		t.leaves(leaves)
	}
	names := make([]string, 0, len(leaves))
	for n := range leaves {
		names = append(names, n)
	}
	sort.Strings(names)
	var sb strings.Builder
	ufMu.Lock()
	for _, n := range ufOrder {
		d := ufDecls[n]
		fmt.Fprintf(&sb, "(declare-fun %s (%s) %s)\n", d.name, strings.Join(d.args, " "), d.ret)
	}
	ufMu.Unlock()
	var defs, qdefs []*Term
	for _, n := range names {
		if strings.HasPrefix(n, "(") {
			continue
		}
		if leaves[n].Def != nil {
			defs = append(defs, leaves[n])
			continue
		}
		fmt.Fprintf(&sb, "(declare-const %s %s)\n", n, sortOf(leaves[n]))
		if leaves[n].QDef != nil {
			qdefs = append(qdefs, leaves[n])
		}
	}
	// definitions in creation order: a definition only mentions earlier ones
	sort.Slice(defs, func(i, j int) bool { return defNum(defs[i]) < defNum(defs[j]) })
	for _, d := range defs {
		body := d.Def.String()
		if render != nil {
			body = render(d.Def)
		}
		fmt.Fprintf(&sb, "(define-fun %s () %s %s)\n", d.Leaf, sortOf(d), body)
	}
	for _, q := range qdefs {
		if q.Link != nil {
			body := q.Link.String()
			if render != nil {
				body = render(q.Link)
			}
			fmt.Fprintf(&sb, "(assert (= %s %s))\n", q.Leaf, body)
		}
	}
	if withQAxioms {
		for _, q := range qdefs {
			body := q.QDef.String()
			if render != nil {
				body = render(q.QDef)
			}
			fmt.Fprintf(&sb, "(assert (= %s %s))\n", q.Leaf, body)
		}
	}
	return sb.String()
}

func defNum(t *Term) int {
	n := 0
	fmt.Sscanf(t.Leaf, "d!%d", &n)
	return n
}

var hardOps = map[string]bool{"bvudiv": true, "bvurem": true, "bvsdiv": true, "bvsrem": true, "bvmul": true}

// renderAbs renders t with division/remainder/multiplication by non-literal operands replaced by
// uninterpreted functions (a sound over-approximation: unsat of the abstraction implies unsat).
func renderAbs(t *Term, sb *strings.Builder, ufs map[string]string) { renderAbsQ(t, sb, ufs, false) }

// inQ: inside a quantifier body (range facts about terms that mention the bound variable cannot be stated outside)
func renderAbsQ(t *Term, sb *strings.Builder, ufs map[string]string, inQ bool) {
	if t.C != nil || t.Op == "" {
		sb.WriteString(t.String())
		return
	}
	if t.Op == "forall" {
		fmt.Fprintf(sb, "(forall ((%s %s)) ", t.Args[0].Leaf, sortOf(t.Args[0]))
		renderAbsQ(t.Args[1], sb, ufs, true)
		sb.WriteByte(')')
		return
	}
	op := t.Op
	if hardOps[op] && !(t.Args[0].IsConst() && t.Args[1].IsConst()) {
		op = fmt.Sprintf("abs_%s_%d", t.Op, t.W)
		bv := fmt.Sprintf("(_ BitVec %d)", t.W)
		ufs[op] = fmt.Sprintf("(declare-fun %s (%s %s) %s)", op, bv, bv, bv)
	}
	var inst strings.Builder
	inst.WriteByte('(')
	inst.WriteString(op)
	var argS []string
	for _, a := range t.Args {
		var as strings.Builder
		renderAbsQ(a, &as, ufs, inQ)
		argS = append(argS, as.String())
		inst.WriteByte(' ')
		inst.WriteString(as.String())
	}
	inst.WriteByte(')')
	sb.WriteString(inst.String())
	// sound range facts about the abstracted operation (constant positive divisor)
	if op != t.Op && !inQ && !t.hasBound && len(t.Args) == 2 && t.Args[1].IsConst() && t.Args[1].signedVal().Sign() > 0 {
		i, a, b := inst.String(), argS[0], argS[1]
		z := BVu(0, t.W).String()
		var ax string
		switch t.Op {
		case "bvurem":
			ax = fmt.Sprintf("(bvult %s %s)", i, b)
		case "bvudiv":
			ax = fmt.Sprintf("(bvule %s %s)", i, a)
		case "bvsrem":
			ax = fmt.Sprintf("(and (=> (bvsge %s %s) (and (bvsge %s %s) (bvslt %s %s))) (=> (bvsle %s %s) (and (bvsle %s %s) (bvsgt %s (bvneg %s)))))", a, z, i, z, i, b, a, z, i, z, i, b)
		case "bvsdiv":
			ax = fmt.Sprintf("(and (=> (bvsge %s %s) (and (bvsge %s %s) (bvsle %s %s))) (=> (bvsle %s %s) (and (bvsle %s %s) (bvsge %s %s))))", a, z, i, z, i, a, a, z, i, z, i, a)
		}
		if ax != "" {
			ufs["ax:"+ax] = "(assert " + ax + ")"
		}
	}
}

// ScriptAbs is Script with hard arithmetic abstracted; returns "" if nothing was abstracted.
func ScriptAbs(asserts []*Term) string {
	ufs := map[string]string{}
	var body strings.Builder
	for _, a := range asserts {
		body.WriteString("(assert ")
		renderAbs(a, &body, ufs)
		body.WriteString(")\n")
	}
	decls := declsWith(asserts, func(t *Term) string {
		var b strings.Builder
		renderAbs(t, &b, ufs)
		return b.String()
	}, true)
	if len(ufs) == 0 {
		return ""
	}
	var sb strings.Builder
	sb.WriteString(prelude)
	for k, d := range ufs {
		if !strings.HasPrefix(k, "ax:") {
			sb.WriteString(d + "\n")
		}
	}
	sb.WriteString(decls)
	for k, d := range ufs {
		if strings.HasPrefix(k, "ax:") {
			sb.WriteString(d + "\n")
		}
	}
	sb.WriteString(body.String())
	sb.WriteString("(check-sat)\n")
	return sb.String()
}

// ScriptNoQ is Script without any quantifier: the caller drops quantified assertions, and the defining axioms
// of quantified-fact symbols are left out (the symbols stay free). A sound weakening of the hypotheses.
func ScriptNoQ(asserts []*Term) string {
	var sb strings.Builder
	sb.WriteString(prelude)
	sb.WriteString(declsWith(asserts, nil, false))
	for _, a := range asserts {
		sb.WriteString("(assert ")
		sb.WriteString(a.String())
		sb.WriteString(")\n")
	}
	sb.WriteString("(check-sat)\n")
	return sb.String()
}

// Script renders a self-contained SMT-LIB file checking satisfiability of asserts.
func Script(asserts []*Term, wantModel bool) string {
	var sb strings.Builder
	sb.WriteString(prelude)
	sb.WriteString(declsFor(asserts))
	for _, a := range asserts {
		sb.WriteString("(assert ")
		sb.WriteString(a.String())
		sb.WriteString(")\n")
	}
	sb.WriteString("(check-sat)\n")
	if wantModel {
		sb.WriteString("(get-model)\n")
	}
	return sb.String()
}

type SolverStats struct {
	mu      sync.Mutex
	Queries int
	Time    time.Duration
	By      map[string]int
}

var stats = SolverStats{By: map[string]int{}}

type Result struct {
	Status string // unsat | sat | unknown | timeout
	Solver string
	Model  string
	Dur    time.Duration
}

type solverTask struct {
	solver    string
	script    string
	tag       string // appended to the solver name in the result ("+uf-abstraction", ...)
	onlyUnsat bool   // an abstraction: only unsat is conclusive
}

// solverErrors collects parse / sort errors reported by a back end: those are engine bugs, never verdicts.
var solverErrors sync.Map

var solverArgv = map[string]func(time.Duration) []string{
	"z3-new": func(t time.Duration) []string {
		return []string{"z3-new", "-in", fmt.Sprintf("-T:%d", int(t.Seconds())+1)}
	},
	"cvc5": func(t time.Duration) []string {
		return []string{"cvc5", "--lang=smt2", fmt.Sprintf("--tlimit=%d", t.Milliseconds())}
	},
	"z3": func(t time.Duration) []string { return []string{"z3", "-in", fmt.Sprintf("-T:%d", int(t.Seconds())+1)} },
}

func runSolverCtx(ctx context.Context, tk solverTask, timeout time.Duration) Result {
	t0 := time.Now()
	argv := solverArgv[tk.solver](timeout)
	c2, cancel := context.WithTimeout(ctx, timeout+2*time.Second)
	defer cancel()
	cmd := exec.CommandContext(c2, argv[0], argv[1:]...)
	cmd.Stdin = strings.NewReader(tk.script)
	out, _ := cmd.Output()
	d := time.Since(t0)
	s := string(out)
	first := strings.TrimSpace(strings.SplitN(s, "\n", 2)[0])
	st := "unknown"
	switch first {
	case "unsat", "sat", "unknown":
		st = first
	case "timeout":
		st = "timeout"
	default:
		if strings.HasPrefix(first, "(error") {
			st = "error"
			solverErrors.Store(first, tk.solver)
			if d := os.Getenv("GOVC_ERRDUMP"); d != "" {
				os.WriteFile(d, []byte(tk.script), 0o644)
			}
		} else if d >= timeout {
			st = "timeout"
		}
	}
	model := ""
	if st == "sat" {
		if i := strings.Index(s, "\n"); i >= 0 {
			model = s[i+1:]
		}
	}
	return Result{Status: st, Solver: tk.solver + tk.tag, Model: model, Dur: d}
}

// raceTasks runs the tasks concurrently; the first conclusive answer wins and the other processes are killed.
func raceTasks(tasks []solverTask, timeout time.Duration) Result {
	t0 := time.Now()
	ctx, cancel := context.WithCancel(context.Background())
	defer cancel()
	ch := make(chan Result, len(tasks))
	for _, tk := range tasks {
		go func(tk solverTask) {
			r := runSolverCtx(ctx, tk, timeout)
			if tk.onlyUnsat && r.Status != "unsat" {
				r.Status = "unknown"
			}
			ch <- r
		}(tk)
	}
	var last Result
	for range tasks {
		r := <-ch
		if r.Status == "sat" || r.Status == "unsat" {
			r.Dur = time.Since(t0)
			stats.mu.Lock()
			stats.Queries++
			stats.Time += r.Dur
			stats.By[strings.SplitN(r.Solver, "+", 2)[0]]++
			stats.mu.Unlock()
			return r
		}
		if last.Solver == "" || r.Status == "timeout" {
			last = r
		}
	}
	last.Dur = time.Since(t0)
	stats.mu.Lock()
	stats.Queries++
	stats.Time += last.Dur
	stats.mu.Unlock()
	return last
}

// Race the back ends on one script; first definite (sat/unsat) answer wins.
func Race(script string, timeout time.Duration, solvers []string) Result {
	var tasks []solverTask
	for _, n := range solvers {
		tasks = append(tasks, solverTask{solver: n, script: script})
	}
	return raceTasks(tasks, timeout)
}

// ---- persistent incremental solver for feasibility pruning ----

var progressHook func(*Inc)

type Inc struct {
	cmd      *exec.Cmd
	in       io.WriteCloser
	out      *bufio.Reader
	declared map[string]bool
	nUF      int
	cur      []*Term // assertion stack currently held by the solver, one push level per entry
	N        int
	T        time.Duration
}

func NewInc() *Inc {
	cmd := exec.Command("z3-new", "-in", "-t:1000")
	inp, _ := cmd.StdinPipe()
	var in io.WriteCloser = inp
	if f := os.Getenv("GOVC_INCLOG"); f != "" {
		lf, _ := os.Create(f)
		in = teeWC{inp, lf}
	}
	outp, _ := cmd.StdoutPipe()
	cmd.Stderr = os.Stderr
	if err := cmd.Start(); err != nil {
		panic(err)
	}
	s := &Inc{cmd: cmd, in: in, out: bufio.NewReader(outp), declared: map[string]bool{}}
	io.WriteString(in, "(set-option :global-declarations true)\n") // declarations survive pop
	io.WriteString(in, prelude)
	io.WriteString(in, "(set-option :timeout 1500)\n") // per check-sat, ms; unknown counts as feasible
	return s
}

func (s *Inc) declare(terms []*Term) {
	ufMu.Lock()
	for ; s.nUF < len(ufOrder); s.nUF++ {
		d := ufDecls[ufOrder[s.nUF]]
		fmt.Fprintf(s.in, "(declare-fun %s (%s) %s)\n", d.name, strings.Join(d.args, " "), d.ret)
	}
	ufMu.Unlock()
	leaves := map[string]*Term{}
	for _, t := range terms {
		t.leaves(leaves)
	}
	var defs []*Term
	for n, t := range leaves {
		if s.declared[n] || strings.HasPrefix(n, "(") {
			continue
		}
		s.declared[n] = true
		if t.Def != nil {
			defs = append(defs, t)
			continue
		}
		fmt.Fprintf(s.in, "(declare-const %s %s)\n", n, sortOf(t))
	}
	sort.Slice(defs, func(i, j int) bool { return defNum(defs[i]) < defNum(defs[j]) })
	for _, d := range defs {
		fmt.Fprintf(s.in, "(define-fun %s () %s %s)\n", d.Leaf, sortOf(d), d.Def.String())
	}
}

// Sat reports whether the conjunction is satisfiable (unknown counts as sat).
// The solver's assertion stack mirrors the previous query: only the suffix that differs is popped / pushed, so
// sibling paths (which share long path-condition prefixes) cost one small push each instead of a full re-send.
func (s *Inc) Sat(asserts []*Term) bool {
	for _, a := range asserts {
		if a.IsFalse() {
			return false
		}
	}
	t0 := time.Now()
	s.declare(asserts)
	var want []*Term
	for _, a := range asserts {
		if a.IsTrue() || a.hasQ {
			continue // quantified facts are dropped for pruning (over-approximation of feasibility)
		}
		want = append(want, a)
	}
	i := 0
	for i < len(s.cur) && i < len(want) && (s.cur[i] == want[i] || s.cur[i].String() == want[i].String()) {
		i++
	}
	if n := len(s.cur) - i; n > 0 {
		fmt.Fprintf(s.in, "(pop %d)\n", n)
	}
	for _, a := range want[i:] {
		fmt.Fprintf(s.in, "(push)\n(assert %s)\n", a.String())
	}
	s.cur = append(s.cur[:i:i], want[i:]...)
	io.WriteString(s.in, "(check-sat)\n")
	line, err := s.out.ReadString('\n')
	if err != nil {
		panic("incremental solver died: " + err.Error())
	}
	if strings.HasPrefix(line, "(error") {
		panic(toolError{"incremental solver: " + strings.TrimSpace(line)})
	}
	s.N++
	s.T += time.Since(t0)
	if progressHook != nil && s.N%200 == 0 {
		progressHook(s)
	}
	return strings.TrimSpace(line) != "unsat"
}

func (s *Inc) Close() { s.in.Close(); s.cmd.Wait() }

type teeWC struct {
	a io.WriteCloser
	b *os.File
}

func (t teeWC) Write(p []byte) (int, error) { t.b.Write(p); return t.a.Write(p) }
func (t teeWC) Close() error                { t.b.Close(); return t.a.Close() }
