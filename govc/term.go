package main

// Terms: SMT-LIB expressions over Bool and fixed-width bit-vectors (plus opaque
// array/uninterpreted terms), with light constant folding so that concrete
// control flow needs no solver call.

import (
	"fmt"
	"math/big"
	"sort"
	"strings"
	"sync"
)

type Term struct {
	Op       string  // smt operator, or "" for leaf
	Args     []*Term // operands
	W        int     // 0 = Bool, >0 = BitVec width, -1 = other sort
	Sort     string  // for W == -1
	Leaf     string  // symbol name for leaves
	C        *big.Int
	s        string      // cached rendering
	Deps     []*Term     // raw leaves: symbols mentioned inside
	Def      *Term       // leaf only: this symbol abbreviates Def (rendered as define-fun); see name()
	QDef     *Term       // leaf only: Bool symbol defined as equivalent to this quantified formula (asserted as an axiom)
	Link     *Term       // leaf only (content equalities): a quantifier-free formula equivalent to the symbol, always asserted
	hasBound bool        // mentions a quantifier-bound variable (never abbreviated)
	hasSk    bool        // contains the body of a skolemised quantified goal (valid in positive positions only)
	hasQ     bool        // contains a quantifier (never abbreviated, so that "(forall " stays visible)
	QReads   []traceRead // forall nested in another quantifier: the memory its body reads (see liftInner)
	Pre      bool        // leaf: a reference known to be pre-existing (< alloc0), hence distinct from every allocation of this call
}

// Large terms are abbreviated by fresh symbols defined with define-fun: in-memory terms are DAGs, and
// rendering them as trees made single obligations tens of megabytes. An abbreviation is a conservative
// extension (the symbol is *defined*), so it is sound in hypotheses and in goals alike.
var (
	defMu         sync.Mutex
	defByStr      = map[string]*Term{}
	defCtr        int
	nameThreshold = 220
)

func (t *Term) core() *Term {
	for t.Def != nil {
		t = t.Def
	}
	return t
}

func finish(t *Term) *Term {
	for _, a := range t.Args {
		if a.hasBound {
			t.hasBound = true
		}
		if a.hasQ {
			t.hasQ = true
		}
		if a.hasSk {
			t.hasSk = true
		}
	}
	if t.hasBound || t.hasQ || t.hasSk || nameThreshold <= 0 {
		return t
	}
	n := len(t.Op) + 2
	for _, a := range t.Args {
		n += len(a.String()) + 1
	}
	if n < nameThreshold {
		return t
	}
	k := t.String()
	defMu.Lock()
	defer defMu.Unlock()
	if d, ok := defByStr[k]; ok {
		return d
	}
	defCtr++
	d := &Term{Leaf: fmt.Sprintf("d!%d", defCtr), W: t.W, Sort: t.Sort, Def: t}
	defByStr[k] = d
	return d
}

var (
	tTrue  = &Term{W: 0, C: big.NewInt(1)}
	tFalse = &Term{W: 0, C: big.NewInt(0)}
)

func mask(w int) *big.Int {
	m := new(big.Int).Lsh(big.NewInt(1), uint(w))
	return m.Sub(m, big.NewInt(1))
}

func BVConst(v *big.Int, w int) *Term {
	x := new(big.Int).And(v, mask(w))
	return &Term{W: w, C: x}
}
func BVu(v uint64, w int) *Term { return BVConst(new(big.Int).SetUint64(v), w) }
func BVi(v int64, w int) *Term  { return BVConst(big.NewInt(v), w) }
func Bool(b bool) *Term {
	if b {
		return tTrue
	}
	return tFalse
}
func Sym(name string, w int) *Term    { return &Term{Leaf: name, W: w} }
func SymSort(name, sort string) *Term { return &Term{Leaf: name, W: -1, Sort: sort} }
func (t *Term) IsConst() bool         { return t.C != nil }
func (t *Term) IsTrue() bool          { return t.W == 0 && t.C != nil && t.C.Sign() != 0 }
func (t *Term) IsFalse() bool         { return t.W == 0 && t.C != nil && t.C.Sign() == 0 }
func (t *Term) Uint() uint64          { return t.C.Uint64() }
func (t *Term) signedVal() *big.Int {
	v := new(big.Int).Set(t.C)
	if t.W > 0 && v.Bit(t.W-1) == 1 {
		v.Sub(v, new(big.Int).Lsh(big.NewInt(1), uint(t.W)))
	}
	return v
}

func (t *Term) String() string {
	if t.s != "" {
		return t.s
	}
	switch {
	case t.C != nil && t.W == 0:
		if t.C.Sign() != 0 {
			t.s = "true"
		} else {
			t.s = "false"
		}
	case t.C != nil && t.W%4 == 0:
		t.s = fmt.Sprintf("#x%0*s", t.W/4, t.C.Text(16))
	case t.C != nil:
		t.s = fmt.Sprintf("(_ bv%s %d)", t.C.String(), t.W)
	case t.Op == "":
		t.s = t.Leaf
	case t.Op == "forall":
		t.s = fmt.Sprintf("(forall ((%s %s)) %s)", t.Args[0].Leaf, sortOf(t.Args[0]), t.Args[1].String())
	default:
		var sb strings.Builder
		sb.WriteByte('(')
		sb.WriteString(t.Op)
		for _, a := range t.Args {
			sb.WriteByte(' ')
			sb.WriteString(a.String())
		}
		sb.WriteByte(')')
		t.s = sb.String()
	}
	return t.s
}

func app(op string, w int, args ...*Term) *Term { return finish(&Term{Op: op, Args: args, W: w}) }
func appSort(op, sort string, args ...*Term) *Term {
	return finish(&Term{Op: op, Args: args, W: -1, Sort: sort})
}

// ---- Bool ----

func Not(a *Term) *Term {
	if a.IsConst() {
		return Bool(a.IsFalse())
	}
	if a.core().Op == "not" {
		return a.core().Args[0]
	}
	return app("not", 0, a)
}
func And(xs ...*Term) *Term {
	var out []*Term
	for _, x := range xs {
		if x.IsFalse() {
			return tFalse
		}
		if x.IsTrue() {
			continue
		}
		out = append(out, x)
	}
	switch len(out) {
	case 0:
		return tTrue
	case 1:
		return out[0]
	}
	return app("and", 0, out...)
}
func Or(xs ...*Term) *Term {
	var out []*Term
	for _, x := range xs {
		if x.IsTrue() {
			return tTrue
		}
		if x.IsFalse() {
			continue
		}
		out = append(out, x)
	}
	switch len(out) {
	case 0:
		return tFalse
	case 1:
		return out[0]
	}
	return app("or", 0, out...)
}
func Implies(a, b *Term) *Term { return Or(Not(a), b) }
func Ite(c, a, b *Term) *Term {
	if c.IsTrue() {
		return a
	}
	if c.IsFalse() {
		return b
	}
	if a.String() == b.String() {
		return a
	}
	if a.W == 0 && a.IsConst() && b.IsConst() {
		if a.IsTrue() && b.IsFalse() {
			return c
		}
		if a.IsFalse() && b.IsTrue() {
			return Not(c)
		}
	}
	return finish(&Term{Op: "ite", Args: []*Term{c, a, b}, W: a.W, Sort: a.Sort})
}
func Eq(a, b *Term) *Term {
	if a.IsConst() && b.IsConst() {
		return Bool(a.C.Cmp(b.C) == 0)
	}
	if a.String() == b.String() {
		return tTrue
	}
	if a.W == 0 {
		if b.IsTrue() {
			return a
		}
		if b.IsFalse() {
			return Not(a)
		}
		if a.IsTrue() {
			return b
		}
		if a.IsFalse() {
			return Not(b)
		}
	}
	return app("=", 0, a, b)
}

// ---- BitVec ----

func bin(op string, a, b *Term, f func(x, y *big.Int) *big.Int) *Term {
	if a.W != b.W {
		panic(fmt.Sprintf("width mismatch %s: %d vs %d (%s, %s)", op, a.W, b.W, a, b))
	}
	if a.IsConst() && b.IsConst() && f != nil {
		return BVConst(f(a.C, b.C), a.W)
	}
	return app(op, a.W, a, b)
}
func isZero(t *Term) bool { return t.IsConst() && t.C.Sign() == 0 }

// ---- linear normal form ----
// Sums, differences and constant multiples (a ring modulo 2^w) are kept as one canonical sum of atoms with
// constant coefficients, ordered by the atoms' rendering. Position bookkeeping computed incrementally by the
// code and recomputed from scratch by a specification function then yields syntactically equal terms.

type linForm struct {
	c     *big.Int
	coef  map[string]*big.Int
	atom  map[string]*Term
	count int
}

func newLin() *linForm {
	return &linForm{c: new(big.Int), coef: map[string]*big.Int{}, atom: map[string]*Term{}}
}

func (l *linForm) addAtom(t *Term, k *big.Int) {
	key := t.String()
	if c, ok := l.coef[key]; ok {
		c.Add(c, k)
	} else {
		l.coef[key] = new(big.Int).Set(k)
		l.atom[key] = t
	}
}

func (l *linForm) add(t *Term, k *big.Int, depth int) {
	l.count++
	if t.IsConst() {
		l.c.Add(l.c, new(big.Int).Mul(t.C, k))
		return
	}
	c := t
	if depth < 6 && t.Def != nil {
		if op := t.Def.Op; op == "bvadd" || op == "bvsub" || op == "bvneg" || op == "bvmul" {
			c = t.Def
		}
	}
	switch {
	case c.Op == "bvadd" && depth < 40:
		for _, a := range c.Args {
			l.add(a, k, depth+1)
		}
	case c.Op == "bvsub" && len(c.Args) == 2 && depth < 40:
		l.add(c.Args[0], k, depth+1)
		l.add(c.Args[1], new(big.Int).Neg(k), depth+1)
	case c.Op == "bvneg" && depth < 40:
		l.add(c.Args[0], new(big.Int).Neg(k), depth+1)
	case c.Op == "bvmul" && len(c.Args) == 2 && c.Args[0].IsConst() && depth < 40:
		l.add(c.Args[1], new(big.Int).Mul(k, c.Args[0].C), depth+1)
	case c.Op == "bvmul" && len(c.Args) == 2 && c.Args[1].IsConst() && depth < 40:
		l.add(c.Args[0], new(big.Int).Mul(k, c.Args[1].C), depth+1)
	default:
		l.addAtom(t, k)
	}
}

func (l *linForm) build(w int) *Term {
	m := mask(w)
	keys := make([]string, 0, len(l.coef))
	for k, c := range l.coef {
		c.And(c, m)
		if c.Sign() != 0 {
			keys = append(keys, k)
		}
	}
	sort.Strings(keys)
	cst := new(big.Int).And(l.c, m)
	var acc *Term
	one := big.NewInt(1)
	var negs []*Term
	for _, k := range keys {
		c, a := l.coef[k], l.atom[k]
		var t *Term
		switch {
		case c.Cmp(one) == 0:
			t = a
		case c.Cmp(m) == 0: // coefficient -1
			negs = append(negs, a)
			continue
		default:
			t = app("bvmul", w, BVConst(c, w), a)
		}
		if acc == nil {
			acc = t
		} else {
			acc = app("bvadd", w, acc, t)
		}
	}
	if cst.Sign() != 0 {
		if acc == nil {
			acc = BVConst(cst, w)
		} else {
			acc = app("bvadd", w, acc, BVConst(cst, w))
		}
	}
	if acc == nil {
		if len(negs) == 0 {
			return BVu(0, w)
		}
		acc = app("bvneg", w, negs[0])
		negs = negs[1:]
	}
	for _, n := range negs {
		acc = app("bvsub", w, acc, n)
	}
	return acc
}

func linear(w int, parts ...struct {
	t *Term
	k int64
}) *Term {
	l := newLin()
	for _, p := range parts {
		l.add(p.t, big.NewInt(p.k), 0)
	}
	return l.build(w)
}

type linPart = struct {
	t *Term
	k int64
}

// ---- byte-lane normal form ----
// A term assembled from zero-extended pieces at disjoint bit positions (the usual way of reading a little- or
// big-endian integer byte by byte, with + or |, in any width) is rebuilt as one concat of its pieces, so that the
// code's and the specification's formulation of the same read become syntactically equal.

type lane struct {
	lo int
	t  *Term
}

func lanesOf(t *Term, depth int) ([]lane, bool) {
	if depth > 12 {
		return nil, false
	}
	if t.IsConst() {
		if t.C.Sign() == 0 {
			return nil, true
		}
		return nil, false
	}
	c := t.core()
	switch {
	case strings.HasPrefix(c.Op, "(_ zero_extend"):
		x := c.Args[0]
		if ls, ok := lanesOf(x, depth+1); ok && len(ls) > 0 && x.core().Op != "select" {
			return ls, true
		}
		return []lane{{0, x}}, true
	case c.Op == "concat":
		hi, ok1 := lanesOf(c.Args[0], depth+1)
		lo, ok2 := lanesOf(c.Args[1], depth+1)
		if !ok1 {
			hi, ok1 = []lane{{0, c.Args[0]}}, true
		}
		if !ok2 {
			lo, ok2 = []lane{{0, c.Args[1]}}, true
		}
		out := append([]lane{}, lo...)
		for _, l := range hi {
			out = append(out, lane{l.lo + c.Args[1].W, l.t})
		}
		return out, true
	case c.Op == "bvshl" && c.Args[1].IsConst():
		ls, ok := lanesOf(c.Args[0], depth+1)
		if !ok || c.Args[1].C.BitLen() > 16 {
			return nil, false
		}
		sh := int(c.Args[1].C.Int64())
		var out []lane
		for _, l := range ls {
			if l.lo+sh+l.t.W > t.W {
				if l.lo+sh >= t.W {
					continue
				}
				return nil, false // a piece would be cut: leave the term alone
			}
			out = append(out, lane{l.lo + sh, l.t})
		}
		return out, true
	case c.Op == "bvor" || c.Op == "bvadd" || c.Op == "bvxor":
		a, ok1 := lanesOf(c.Args[0], depth+1)
		b, ok2 := lanesOf(c.Args[1], depth+1)
		if !ok1 || !ok2 {
			return nil, false
		}
		return mergeLanes(a, b)
	case c.Op == "select" && t.W == 8:
		return []lane{{0, t}}, true
	}
	return nil, false
}

func mergeLanes(a, b []lane) ([]lane, bool) {
	out := append(append([]lane{}, a...), b...)
	sort.Slice(out, func(i, j int) bool { return out[i].lo < out[j].lo })
	for i := 1; i < len(out); i++ {
		if out[i-1].lo+out[i-1].t.W > out[i].lo {
			return nil, false // overlapping bits: + | ^ differ
		}
	}
	return out, true
}

func buildLanes(ls []lane, w int) *Term {
	if len(ls) == 0 {
		return BVu(0, w)
	}
	var t *Term
	pos := 0
	for _, l := range ls {
		if l.lo > pos {
			z := BVu(0, l.lo-pos)
			if t == nil {
				t = z
			} else {
				t = rawConcat(z, t)
			}
		}
		if t == nil {
			t = l.t
		} else {
			t = rawConcat(l.t, t)
		}
		pos = l.lo + l.t.W
	}
	if pos < w {
		t = rawConcat(BVu(0, w-pos), t)
	}
	return t
}

func rawConcat(hi, lo *Term) *Term {
	if hi.IsConst() && lo.IsConst() {
		v := new(big.Int).Lsh(hi.C, uint(lo.W))
		return BVConst(v.Or(v, lo.C), hi.W+lo.W)
	}
	return app("concat", hi.W+lo.W, hi, lo)
}

// laneJoin returns the lane normal form of a OP b (OP in + | ^) when both sides are lane terms on disjoint bits.
func laneJoin(a, b *Term) *Term {
	if a.W < 16 || a.IsConst() || b.IsConst() {
		return nil
	}
	la, ok1 := lanesOf(a, 0)
	if !ok1 || len(la) == 0 {
		return nil
	}
	lb, ok2 := lanesOf(b, 0)
	if !ok2 || len(lb) == 0 {
		return nil
	}
	m, ok := mergeLanes(la, lb)
	if !ok {
		return nil
	}
	for _, l := range m {
		if l.lo+l.t.W > a.W {
			return nil
		}
	}
	return buildLanes(m, a.W)
}

func Add(a, b *Term) *Term {
	if isZero(a) {
		return b
	}
	if isZero(b) {
		return a
	}
	if a.W == b.W {
		if j := laneJoin(a, b); j != nil {
			return j
		}
	}
	if a.W == b.W && a.W >= 8 && !a.hasBound && !b.hasBound {
		return linear(a.W, linPart{a, 1}, linPart{b, 1})
	}
	// (x + c1) + c2 => x + (c1+c2)
	if ac := a.core(); b.IsConst() && ac.Op == "bvadd" && ac.Args[1].IsConst() {
		return Add(ac.Args[0], BVConst(new(big.Int).Add(ac.Args[1].C, b.C), a.W))
	}
	return bin("bvadd", a, b, func(x, y *big.Int) *big.Int { return new(big.Int).Add(x, y) })
}
func Sub(a, b *Term) *Term {
	if isZero(b) {
		return a
	}
	if a.W == b.W && a.W >= 8 && !a.hasBound && !b.hasBound {
		return linear(a.W, linPart{a, 1}, linPart{b, -1})
	}
	if b.IsConst() {
		return Add(a, BVConst(new(big.Int).Neg(b.C), a.W))
	}
	if a.String() == b.String() {
		return BVu(0, a.W)
	}
	return bin("bvsub", a, b, func(x, y *big.Int) *big.Int { return new(big.Int).Sub(x, y) })
}
func Mul(a, b *Term) *Term {
	if a.W == b.W && a.W >= 8 && (a.IsConst() != b.IsConst()) && !a.hasBound && !b.hasBound {
		if a.IsConst() {
			l := newLin()
			l.add(b, a.C, 0)
			return l.build(a.W)
		}
		l := newLin()
		l.add(a, b.C, 0)
		return l.build(a.W)
	}
	return bin("bvmul", a, b, func(x, y *big.Int) *big.Int { return new(big.Int).Mul(x, y) })
}
func Neg(a *Term) *Term {
	if a.IsConst() {
		return BVConst(new(big.Int).Neg(a.C), a.W)
	}
	if a.W >= 8 && !a.hasBound {
		return linear(a.W, linPart{a, -1})
	}
	return app("bvneg", a.W, a)
}
func BNot(a *Term) *Term {
	if a.IsConst() {
		return BVConst(new(big.Int).Not(a.C), a.W)
	}
	return app("bvnot", a.W, a)
}
func BAnd(a, b *Term) *Term {
	return bin("bvand", a, b, func(x, y *big.Int) *big.Int { return new(big.Int).And(x, y) })
}
func BOr(a, b *Term) *Term {
	if isZero(a) {
		return b
	}
	if isZero(b) {
		return a
	}
	if a.W == b.W {
		if j := laneJoin(a, b); j != nil {
			return j
		}
	}
	return bin("bvor", a, b, func(x, y *big.Int) *big.Int { return new(big.Int).Or(x, y) })
}
func BXor(a, b *Term) *Term {
	return bin("bvxor", a, b, func(x, y *big.Int) *big.Int { return new(big.Int).Xor(x, y) })
}
func UDiv(a, b *Term) *Term {
	if a.IsConst() && b.IsConst() && b.C.Sign() != 0 {
		return BVConst(new(big.Int).Div(a.C, b.C), a.W)
	}
	// digit extraction normal form: (x % (n*k)) / n  ==>  (x / n) % k   (Nat.mod_mul_right_div_self)
	if ac := a.core(); b.IsConst() && b.C.Sign() != 0 && ac.Op == "bvurem" && ac.Args[1].IsConst() {
		q, r := new(big.Int).QuoRem(ac.Args[1].C, b.C, new(big.Int))
		if r.Sign() == 0 && q.Sign() != 0 {
			return URem(UDiv(ac.Args[0], b), BVConst(q, a.W))
		}
	}
	return app("bvudiv", a.W, a, b)
}
func URem(a, b *Term) *Term {
	if a.IsConst() && b.IsConst() && b.C.Sign() != 0 {
		return BVConst(new(big.Int).Mod(a.C, b.C), a.W)
	}
	return app("bvurem", a.W, a, b)
}
func SDiv(a, b *Term) *Term {
	if a.IsConst() && b.IsConst() && b.C.Sign() != 0 {
		return BVConst(new(big.Int).Quo(a.signedVal(), b.signedVal()), a.W)
	}
	// same normal form for truncated signed division with positive constant divisors
	if ac := a.core(); b.IsConst() && b.signedVal().Sign() > 0 && ac.Op == "bvsrem" && ac.Args[1].IsConst() && ac.Args[1].signedVal().Sign() > 0 {
		q, r := new(big.Int).QuoRem(ac.Args[1].C, b.C, new(big.Int))
		if r.Sign() == 0 && q.Sign() != 0 {
			return SRem(SDiv(ac.Args[0], b), BVConst(q, a.W))
		}
	}
	return app("bvsdiv", a.W, a, b)
}
func SRem(a, b *Term) *Term {
	if a.IsConst() && b.IsConst() && b.C.Sign() != 0 {
		return BVConst(new(big.Int).Rem(a.signedVal(), b.signedVal()), a.W)
	}
	return app("bvsrem", a.W, a, b)
}

// shift count y is already normalised to a's width
func Shl(a, y *Term) *Term {
	if isZero(y) {
		return a
	}
	if a.IsConst() && y.IsConst() {
		if y.C.Cmp(big.NewInt(int64(a.W))) >= 0 {
			return BVu(0, a.W)
		}
		return BVConst(new(big.Int).Lsh(a.C, uint(y.C.Uint64())), a.W)
	}
	return app("bvshl", a.W, a, y)
}
func LShr(a, y *Term) *Term {
	if isZero(y) {
		return a
	}
	if a.IsConst() && y.IsConst() {
		if y.C.Cmp(big.NewInt(int64(a.W))) >= 0 {
			return BVu(0, a.W)
		}
		return BVConst(new(big.Int).Rsh(a.C, uint(y.C.Uint64())), a.W)
	}
	return app("bvlshr", a.W, a, y)
}
func AShr(a, y *Term) *Term {
	if isZero(y) {
		return a
	}
	if a.IsConst() && y.IsConst() {
		n := y.C.Uint64()
		if y.C.Cmp(big.NewInt(int64(a.W))) >= 0 {
			n = uint64(a.W)
		}
		return BVConst(new(big.Int).Rsh(a.signedVal(), uint(n)), a.W)
	}
	return app("bvashr", a.W, a, y)
}

func cmp(op string, a, b *Term, f func(c int) bool, sg bool) *Term {
	if a.W != b.W {
		panic(fmt.Sprintf("width mismatch %s: %d vs %d (%s , %s)", op, a.W, b.W, a, b))
	}
	if a.IsConst() && b.IsConst() {
		if sg {
			return Bool(f(a.signedVal().Cmp(b.signedVal())))
		}
		return Bool(f(a.C.Cmp(b.C)))
	}
	return app(op, 0, a, b)
}
func ULt(a, b *Term) *Term { return cmp("bvult", a, b, func(c int) bool { return c < 0 }, false) }
func ULe(a, b *Term) *Term { return cmp("bvule", a, b, func(c int) bool { return c <= 0 }, false) }
func SLt(a, b *Term) *Term { return cmp("bvslt", a, b, func(c int) bool { return c < 0 }, true) }
func SLe(a, b *Term) *Term { return cmp("bvsle", a, b, func(c int) bool { return c <= 0 }, true) }

func Extract(hi, lo int, a *Term) *Term {
	if lo == 0 && hi == a.W-1 {
		return a
	}
	if a.IsConst() {
		return BVConst(new(big.Int).Rsh(a.C, uint(lo)), hi-lo+1)
	}
	// extract of zero_extend within original
	t := app(fmt.Sprintf("(_ extract %d %d)", hi, lo), hi-lo+1, a)
	return t
}
func ZeroExt(a *Term, to int) *Term {
	if to == a.W {
		return a
	}
	if a.IsConst() {
		return BVConst(a.C, to)
	}
	return app(fmt.Sprintf("(_ zero_extend %d)", to-a.W), to, a)
}
func SignExt(a *Term, to int) *Term {
	if to == a.W {
		return a
	}
	if a.IsConst() {
		return BVConst(a.signedVal(), to)
	}
	return app(fmt.Sprintf("(_ sign_extend %d)", to-a.W), to, a)
}
func Concat(hi, lo *Term) *Term {
	if hi.IsConst() && lo.IsConst() {
		v := new(big.Int).Lsh(hi.C, uint(lo.W))
		return BVConst(v.Or(v, lo.C), hi.W+lo.W)
	}
	// canonical (lane) nesting, so that reads assembled differently coincide
	t := &Term{Op: "concat", Args: []*Term{hi, lo}, W: hi.W + lo.W}
	if ls, ok := lanesOf(t, 0); ok && len(ls) > 0 {
		return buildLanes(ls, t.W)
	}
	return app("concat", hi.W+lo.W, hi, lo)
}

// arrays

// baseOff splits t into (base rendering, constant offset) for terms of the shape x or (bvadd x c).
func baseOff(t *Term) (string, *big.Int) {
	if t.IsConst() {
		return "", t.C
	}
	if tc := t.core(); tc.Op == "bvadd" && len(tc.Args) == 2 && tc.Args[1].IsConst() {
		return tc.Args[0].String(), tc.Args[1].C
	}
	return t.String(), big.NewInt(0)
}

// distinctIdx reports whether two index terms are provably different (syntactically: same base, different offset).
func distinctIdx(a, b *Term) bool {
	if a.W != b.W || a.W <= 0 {
		return false
	}
	ba, oa := baseOff(a)
	bb, ob := baseOff(b)
	if ba == bb && oa.Cmp(ob) != 0 {
		return true
	}
	// a pre-existing reference differs from alloc0+k (k >= 1, no wrap: alloc0 < 2^62 and k is small)
	isAlloc := func(base string) bool { return base == "alloc0" || strings.HasPrefix(base, "wm!") }
	if a.Pre && isAlloc(bb) && ob.Sign() > 0 && ob.BitLen() < 32 {
		return true
	}
	if b.Pre && isAlloc(ba) && oa.Sign() > 0 && oa.BitLen() < 32 {
		return true
	}
	return false
}

// skipStores applies read-over-write for syntactically equal / provably distinct indices.
func skipStores(arr, idx *Term) (*Term, *Term) {
	for arr.core().Op == "store" {
		ac := arr.core()
		if ac.Args[1].String() == idx.String() {
			return nil, ac.Args[2]
		}
		if distinctIdx(ac.Args[1], idx) {
			arr = ac.Args[0]
			continue
		}
		break
	}
	return arr, nil
}

func Select(arr, idx *Term, w int) *Term {
	a, v := skipStores(arr, idx)
	if v != nil {
		return v
	}
	return app("select", w, a, idx)
}
func SelectSort(arr, idx *Term, sort string) *Term {
	a, v := skipStores(arr, idx)
	if v != nil {
		return v
	}
	return appSort("select", sort, a, idx)
}
func Store(arr, idx, v *Term) *Term { return appSort("store", arr.Sort, arr, idx, v) }

// uninterpreted application
func UF(name string, w int, args ...*Term) *Term { return app(name, w, args...) }
func UFSort(name, sort string, args ...*Term) *Term {
	return appSort(name, sort, args...)
}

// collect free leaf symbols (for declarations)
func (t *Term) leaves(m map[string]*Term) {
	if t.C != nil {
		return
	}
	if t.Op == "" {
		if _, seen := m[t.Leaf]; seen {
			return
		}
		m[t.Leaf] = t
		for _, d := range t.Deps {
			d.leaves(m)
		}
		if t.Def != nil {
			t.Def.leaves(m)
		}
		if t.QDef != nil {
			t.QDef.leaves(m)
		}
		if t.Link != nil {
			t.Link.leaves(m)
		}
		return
	}
	if t.Op == "forall" {
		inner := map[string]*Term{}
		t.Args[1].leaves(inner)
		delete(inner, t.Args[0].Leaf)
		for k, v := range inner {
			m[k] = v
		}
		return
	}
	for _, a := range t.Args {
		a.leaves(m)
	}
}

func sortOf(t *Term) string {
	switch {
	case t.W == 0:
		return "Bool"
	case t.W > 0:
		return fmt.Sprintf("(_ BitVec %d)", t.W)
	}
	return t.Sort
}

// Forall builds a universally quantified formula over a 64-bit bound variable.
func Forall(bv, body *Term) *Term {
	return &Term{Op: "forall", Args: []*Term{bv, body}, W: 0, hasQ: true}
}

// BoundVar makes a fresh quantifier-bound variable; terms that mention it are never abbreviated.
func BoundVar(name string, w int) *Term { return &Term{Leaf: name, W: w, hasBound: true} }

// subst replaces the leaf symbol name by repl throughout t.
func subst(t *Term, name string, repl *Term) *Term {
	if t.C != nil {
		return t
	}
	if t.Op == "" {
		if t.Leaf == name {
			return repl
		}
		return t
	}
	changed := false
	args := make([]*Term, len(t.Args))
	for i, a := range t.Args {
		args[i] = subst(a, name, repl)
		if args[i] != a {
			changed = true
		}
	}
	if !changed {
		return t
	}
	// rebuild through the simplifying constructors where that is cheap (keeps index terms in normal form)
	switch {
	case t.Op == "bvadd" && len(args) == 2:
		return Add(args[0], args[1])
	case t.Op == "bvsub" && len(args) == 2:
		return Sub(args[0], args[1])
	case t.Op == "and":
		return And(args...)
	case t.Op == "or":
		return Or(args...)
	case t.Op == "not":
		return Not(args[0])
	case t.Op == "=" && len(args) == 2:
		return Eq(args[0], args[1])
	case t.Op == "select" && len(args) == 2 && t.W >= 0:
		return Select(args[0], args[1], t.W)
	case t.Op == "forall":
		q := Forall(args[0], args[1])
		q.hasBound = freeBound(args[1], map[string]bool{args[0].Leaf: true})
		for _, rd := range t.QReads {
			q.QReads = append(q.QReads, traceRead{replaceToken(rd.key, name, repl.String()), subst(rd.abs, name, repl)})
		}
		return q
	}
	return finish(&Term{Op: t.Op, Args: args, W: t.W, Sort: t.Sort})
}

// replaceToken replaces the symbol name in the rendering s of a term by repl (name is a whole token: not followed by
// a digit, as in k!6 versus k!60).
func replaceToken(s, name, repl string) string {
	if !strings.Contains(s, name) {
		return s
	}
	var sb strings.Builder
	for {
		i := strings.Index(s, name)
		if i < 0 {
			sb.WriteString(s)
			return sb.String()
		}
		j := i + len(name)
		if j < len(s) && s[j] >= '0' && s[j] <= '9' {
			sb.WriteString(s[:j])
			s = s[j:]
			continue
		}
		sb.WriteString(s[:i])
		sb.WriteString(repl)
		s = s[j:]
	}
}
