package main

import (
	"fmt"
	"go/types"

	"golang.org/x/tools/go/ssa"
)

// Val is an immutable symbolic value. Everything mutable lives in State maps
// keyed by integer ids so that forking a state is a shallow map copy.
type Val interface{}

type (
	// SliceV is a slice or string: a window into heap byte/element memory.
	SliceV struct {
		Base, Off, Len, Cap *Term
		Elem                types.Type
		Str                 bool
		Arr                 *Term // optional: read contents from this array snapshot instead of the current heap
	}
	// ListV is a slice with a concrete list of elements (varargs and small literals).
	ListV struct {
		E    []Val
		Elem types.Type
	}
	// PtrTable is &table[i] for a constant lookup table.
	PtrTable struct {
		T   TableV
		Idx *Term
	}
	NilV   struct{ T types.Type }
	TupleV []Val
	// StructV is a struct value (value semantics).
	StructV struct {
		T types.Type
		F []Val
	}
	// ArrayV is a fixed-size array value with concrete length.
	ArrayV struct {
		T types.Type
		E []Val
	}
	// PtrCell points at an executor cell (a source local or temporary), optionally a sub-field path.
	// BoxV stands for a pointer to a local that held V (arguments of abstracted specification calls).
	BoxV struct{ V Val }
	PtrCell struct {
		ID   int
		Path []int
	}
	// PtrRef points at a symbolic heap object.
	PtrRef struct {
		Ref *Term
		T   types.Type // pointee type
	}
	// PtrField is &p.f of a heap object.
	PtrField struct {
		Ref   *Term
		T     types.Type // struct type
		Field int
	}
	// PtrElem is &s[i].
	PtrElem struct {
		S   SliceV
		Idx *Term
	}
	// PtrObj points at an executor-level library object (bytes.Buffer, time.Time...).
	PtrObj struct{ ID int }
	// IfaceV is an interface value with a path-known dynamic type (nil Tag = nil interface).
	IfaceV struct {
		Tag types.Type
		V   Val
	}
	// ErrV is an error value: abstract, with a nil-ness term.
	ErrV struct {
		NonNil *Term
		ID     *Term
	}
	FuncV struct {
		Fn   *ssa.Function
		Bind []Val
	}
	GlobalV struct{ G *ssa.Global }
	// FuncSym is a function value of unknown identity (a callback).
	FuncSym struct {
		ID   *Term
		Name string
	}
	// MapV is a handle to a map object.
	MapV struct{ ID int }
	// ChanV is a channel: identity and capacity (contents are ghost state of the contract file).
	ChanV struct {
		ID  *Term
		Cap *Term
	}
	// OpaqueV is a value the executor does not model; using it in a way that matters is a tool error.
	OpaqueV struct{ Why string }
	// TextV is a vspec.Text value (list of pieces).
	TextV struct{ P []Piece }
	// TimeV is an abstract time.Time: local broken-down fields of an instant.
	TimeV struct {
		Sec   *Term // unix seconds (64-bit)
		Local bool
		Zone  string // "" = the process's local zone, "utc"
	}
)

func (s SliceV) String() string {
	return fmt.Sprintf("slice{base=%s off=%s len=%s}", s.Base, s.Off, s.Len)
}

// ---- type helpers ----

func bvWidth(t types.Type) int {
	switch b := t.Underlying().(type) {
	case *types.Basic:
		switch b.Kind() {
		case types.Bool, types.UntypedBool:
			return 0
		case types.Int8, types.Uint8:
			return 8
		case types.Int16, types.Uint16:
			return 16
		case types.Int32, types.Uint32, types.UntypedRune:
			return 32
		case types.Int, types.Uint, types.Int64, types.Uint64, types.Uintptr, types.UntypedInt:
			return 64
		case types.Float32:
			return 32
		case types.Float64, types.UntypedFloat:
			return 64
		}
	}
	return -1
}

func isSigned(t types.Type) bool {
	b, ok := t.Underlying().(*types.Basic)
	return ok && b.Info()&types.IsInteger != 0 && b.Info()&types.IsUnsigned == 0
}

func isFloat(t types.Type) bool {
	b, ok := t.Underlying().(*types.Basic)
	return ok && b.Info()&types.IsFloat != 0
}

func isString(t types.Type) bool {
	b, ok := t.Underlying().(*types.Basic)
	return ok && b.Info()&types.IsString != 0
}

func isByteSlice(t types.Type) bool {
	s, ok := t.Underlying().(*types.Slice)
	if !ok {
		return false
	}
	b, ok := s.Elem().Underlying().(*types.Basic)
	return ok && b.Kind() == types.Uint8
}

func isError(t types.Type) bool {
	return types.Identical(t, types.Universe.Lookup("error").Type())
}

func typeName(t types.Type) string {
	return types.TypeString(t, func(p *types.Package) string { return p.Name() })
}
