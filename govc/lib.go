package main

import (
	"fmt"
	"go/types"
	"strconv"
	"strings"

	"golang.org/x/tools/go/ssa"
)

// call dispatches builtins, library models, contracts and inlined package-local functions.
func (e *Engine) call(st *State, fr *Frame, c *ssa.Call) []Outcome {
	return e.callCC(st, fr, &c.Call, nil)
}

// callCC performs a call (also used for deferred calls, whose function value and arguments were evaluated at the
// defer statement and are passed in pre).
func (e *Engine) callCC(st *State, fr *Frame, cc *ssa.CallCommon, pre *deferred) []Outcome {
	args := make([]Val, len(cc.Args))
	var fnVal Val
	if pre != nil {
		args, fnVal = pre.args, pre.fn
	} else {
		for k, a := range cc.Args {
			args[k] = e.get(st, fr, a)
		}
		if needsFnVal(cc) {
			fnVal = e.get(st, fr, cc.Value)
		}
	}
	if fv, ok := fnVal.(FuncV); ok && !cc.IsInvoke() {
		// a closure (also when it is called where it is made): its body runs against the captured cells
		e.pendingParent = fr
		return e.execFunc(st, fv.Fn, args, fv.Bind, fr.depth+1)
	}
	one := func(v ...Val) []Outcome { return []Outcome{{st: st, ret: v}} }

	if cc.IsInvoke() {
		return e.invoke(st, fr, fnVal, cc.Method.Name(), args, cc)
	}
	if b, ok := cc.Value.(*ssa.Builtin); ok {
		switch b.Name() {
		case "ssa:deferstack":
			return one(OpaqueV{"deferstack"})
		case "len":
			switch x := args[0].(type) {
			case SliceV:
				return one(x.Len)
			case ListV:
				return one(BVu(uint64(len(x.E)), 64))
			case MapV:
				// the number of keys: a non-negative function of the domain (nothing more is known about it)
				m := st.objs[x.ID].(*MapObj)
				DeclareUF("mapcard_"+sortName(m.Dom.Sort), []string{m.Dom.Sort}, "I64")
				n := UF("mapcard_"+sortName(m.Dom.Sort), 64, m.Dom)
				st.assumeT(And(SLe(BVu(0, 64), n), SLt(n, BVu(1<<40, 64))))
				return one(n)
			}
		case "cap":
			switch x := args[0].(type) {
			case SliceV:
				return one(x.Cap)
			case ChanV:
				return one(x.Cap)
			}
		case "close":
			e.chanEvent(st, fr, "close", cc.Args[0], nil)
			return one()
		case "copy":
			return one(e.doCopy(st, args[0].(SliceV), args[1].(SliceV)))
		case "append":
			sl, ok1 := args[0].(SliceV)
			add, ok2 := args[1].(ListV)
			if ok1 && ok2 && bvWidth(sl.Elem) != 8 {
				return e.doAppend(st, fr, sl, add)
			}
			if src, ok3 := args[1].(SliceV); ok1 && ok3 && bvWidth(sl.Elem) == 8 && !isFloat(sl.Elem) {
				return e.doAppendBytes(st, fr, sl, src)
			}
			if src, ok3 := args[1].(SliceV); ok1 && ok3 {
				return e.doAppendSlice(st, fr, sl, src)
			}
		}
		fail("builtin %s on %v", b.Name(), args)
	}
	callee := cc.StaticCallee()
	if callee == nil {
		switch fv := fnVal.(type) {
		case FuncV:
			e.pendingParent = fr
			return e.execFunc(st, fv.Fn, args, fv.Bind, fr.depth+1)
		case FuncSym:
			return e.callback(st, fr, fv, args, cc)
		}
		fail("dynamic call %s", cc)
	}
	return e.callFn(st, fr, callee, args, cc)
}

// callFn dispatches a call whose callee is known: library model, observer, contract, or inlining.
func (e *Engine) callFn(st *State, fr *Frame, callee *ssa.Function, args []Val, c *ssa.CallCommon) []Outcome {
	one := func(v ...Val) []Outcome { return []Outcome{{st: st, ret: v}} }
	name := callee.String()
	if outs, ok := e.libCall(st, fr, name, args, c); ok {
		return outs
	}
	if e.observer[name] || e.observer[callee.Name()] || e.observer[contractStem(callee)] {
		// a pure function of its arguments, kept abstract in this unit (its own unit verifies it): the results are
		// uninterpreted functions of the arguments, so two calls with equal arguments agree
		var ts []*Term
		for _, a := range args {
			if p, ok := a.(PtrCell); ok { // address of a local: identified by the value it holds
				a = getPath(st.cells[p.ID], p.Path)
			}
			ts = append(ts, flattenVal(a)...)
		}
		var ret []Val
		res := callee.Signature.Results()
		for k := 0; k < res.Len(); k++ {
			ret = append(ret, e.ufVal(st, res.At(k).Type(), fmt.Sprintf("obs_%s_%d_a%d", contractStem(callee), k, len(ts)), ts))
		}
		e.nonNilUnlessError(st, ret)
		return one(ret...)
	}
	if !st.spec && callee != e.unitFn && callee.Pkg != nil {
		if hook := e.note(callee.Pkg.Func("vc_hook_call_" + contractStem(callee))); hook != nil {
			// call-trace hook: records the call in ghost state
			e.pendingParent = fr
			hs := e.execFunc(st, hook, args, nil, fr.depth+1)
			if len(hs) != 1 {
				fail("hook %s must be straight-line", hook.Name())
			}
			st = hs[0].st
		}
		if e.findContract(callee, "requires") != nil || len(e.findContracts(callee, "ensures")) > 0 || callee.Pkg.Func("vc_"+contractStem(callee)+"_trusted") != nil {
			if callee.Pkg.Func("vc_"+contractStem(callee)+"_trusted") != nil {
				e.warn("trusted contract (assumed, body not verified): %s", callee.Name())
			}
			return e.applyContract(st, fr, callee, args)
		}
	}
	if callee.Pkg != nil && e.pkgs[callee.Pkg.Pkg.Path()] != nil || strings.Contains(name, "vspec") {
		if e.havoc[name] || e.havoc[callee.Name()] || e.havoc[contractStem(callee)] {
			e.warn("call to %s havocked", name)
			var ret []Val
			res := callee.Signature.Results()
			for k := 0; k < res.Len(); k++ {
				ret = append(ret, st.freshVal(res.At(k).Type(), "hv_"+callee.Name()))
			}
			return one(ret...)
		}
		e.pendingParent = fr
		return e.execFunc(st, callee, args, nil, fr.depth+1)
	}
	if callee.Synthetic != "" && callee.Blocks != nil {
		// wrappers for promoted methods
		e.pendingParent = fr
		return e.execFunc(st, callee, args, nil, fr.depth+1)
	}
	if outs, ok := e.pureLibFallback(st, fr, callee, args); ok {
		return outs
	}
	fail("call to unmodelled function %s", name)
	return nil
}

// pureLibFallback over-approximates a call to a library function that has no model: package-level functions of a
// few standard packages that only compute values (all parameters and results are numbers, booleans, strings, byte
// slices or error). Their results are arbitrary (a byte-slice result may be any memory, pre-existing or not);
// the Append* family is the real append of an arbitrary byte sequence to its first argument (same cases and the same
// frame obligation as the built-in). Everything proved after such a call holds whatever the function returns;
// a clause that depends on what it returns cannot be proved and is reported. Not used inside specifications.
var pureLibPkgs = map[string]bool{"strconv": true, "strings": true, "bytes": true, "unicode": true, "unicode/utf8": true,
	"unicode/utf16": true, "math": true, "math/bits": true}

func (e *Engine) pureLibFallback(st *State, fr *Frame, callee *ssa.Function, args []Val) ([]Outcome, bool) {
	if st.spec || callee.Pkg == nil || !pureLibPkgs[callee.Pkg.Pkg.Path()] || callee.Signature.Recv() != nil || callee.Signature.Variadic() {
		return nil, false
	}
	plain := func(t types.Type) bool {
		if isError(t) {
			return true
		}
		switch u := t.Underlying().(type) {
		case *types.Basic:
			return u.Kind() != types.UnsafePointer
		case *types.Slice:
			b, ok := u.Elem().Underlying().(*types.Basic)
			return ok && b.Kind() == types.Uint8
		}
		return false
	}
	sig := callee.Signature
	byteParams := 0
	for i := 0; i < sig.Params().Len(); i++ {
		t := sig.Params().At(i).Type()
		if !plain(t) || isError(t) {
			return nil, false
		}
		if _, ok := t.Underlying().(*types.Slice); ok {
			byteParams++
		}
	}
	for i := 0; i < sig.Results().Len(); i++ {
		if !plain(sig.Results().At(i).Type()) {
			return nil, false
		}
	}
	name := callee.Name()
	isAppend := strings.HasPrefix(name, "Append") && sig.Params().Len() > 0 && sig.Results().Len() == 1
	if isAppend {
		if _, ok := sig.Params().At(0).Type().Underlying().(*types.Slice); !ok {
			return nil, false
		}
		if _, ok := sig.Results().At(0).Type().Underlying().(*types.Slice); !ok {
			return nil, false
		}
	}
	if byteParams > 0 && !isAppend && (strings.HasPrefix(name, "Encode") || strings.HasPrefix(name, "Decode") || strings.HasPrefix(name, "Put")) && callee.Pkg.Pkg.Path() != "unicode/utf8" {
		return nil, false
	}
	if callee.Pkg.Pkg.Path() == "unicode/utf8" && name == "EncodeRune" {
		return nil, false // writes its first argument
	}
	e.warn("call to %s has no model: its results are arbitrary (over-approximation)", callee.String())
	if isAppend {
		dst, ok := args[0].(SliceV)
		if !ok {
			return nil, false
		}
		saved := st.noPre
		st.noPre = true
		src := st.freshSlice(types.Typ[types.Uint8], "lib_"+name+"_src", false)
		st.noPre = saved
		src.Arr = SymSort(fresh("lib_"+name+"_bytes"), byteArrSort)
		return e.doAppendBytes(st, fr, dst, src), true
	}
	var ret []Val
	saved := st.noPre
	st.noPre = true
	for i := 0; i < sig.Results().Len(); i++ {
		ret = append(ret, st.freshVal(sig.Results().At(i).Type(), "lib_"+name))
	}
	st.noPre = saved
	return []Outcome{{st: st, ret: ret}}, true
}

func (e *Engine) invoke(st *State, fr *Frame, recv Val, method string, args []Val, c *ssa.CallCommon) []Outcome {
	if is, ok := recv.(IfaceSym); ok {
		// interface-method contract: a pure observer of the receiver (uninterpreted in the receiver identity and scalar arguments)
		ts := []*Term{is.ID}
		sig0 := c.Signature()
		if sig0.Results().Len() > 0 {
			for _, a := range args {
				ts = append(ts, flattenVal(a)...)
			}
		}
		if !st.spec {
			e.oblige(st, "safe:nil-iface", Not(Eq(is.ID, BVu(0, 64))), "method call on nil interface "+typeName(is.T))
			st.assumeT(Not(Eq(is.ID, BVu(0, 64))))
		}
		sig := c.Signature()
		var ret []Val
		iname := ifaceStem(is.T) + "_" + method
		pkg := e.unitFn.Pkg
		if hook := e.note(pkg.Func("vc_hook_iface_" + iname)); hook != nil && !st.spec {
			// call-trace contract: the hook records the call in ghost state (its parameters: the call's arguments)
			e.pendingParent = fr
			hs := e.execFunc(st, hook, args, nil, fr.depth+1)
			if len(hs) != 1 {
				fail("hook %s must be straight-line", hook.Name())
			}
			st = hs[0].st
		}
		impure := e.note(pkg.Func("vc_iface_"+iname+"_fresh")) != nil // each call yields new results (ReadPacket)
		for k := 0; k < sig.Results().Len(); k++ {
			if impure {
				ret = append(ret, st.freshVal(sig.Results().At(k).Type(), "ifc_"+method))
			} else {
				ret = append(ret, e.ufVal(st, sig.Results().At(k).Type(), fmt.Sprintf("ifc_%s_%s_%d_a%d", typeName(is.T), method, k, len(ts)), ts))
			}
		}
		e.nonNilUnlessError(st, ret)
		if hook := e.note(pkg.Func("vc_hook_iface_" + iname + "_done")); hook != nil && !st.spec {
			// call-trace hook that also sees the results
			e.pendingParent = fr
			hs := e.execFunc(st, hook, append(append([]Val{}, args...), ret...), nil, fr.depth+1)
			if len(hs) != 1 {
				fail("hook %s must be straight-line", hook.Name())
			}
			st = hs[0].st
		}
		if ens := e.note(pkg.Func("vc_iface_" + iname + "_ensures")); ens != nil && !st.spec {
			// assumed contract of an environment / dependency method
			st.assumeT(e.evalContract(st, ens, append(append([]Val{}, args...), ret...), true))
		}
		return []Outcome{{st: st, ret: ret}}
	}
	iv, ok := recv.(IfaceV)
	if !ok {
		fail("invoke on %T", recv)
	}
	if iv.Tag == nil {
		e.oblige(st, "safe:nil-iface", tFalse, "method call on nil interface")
		return nil
	}
	// the dynamic type is known on this path: static dispatch
	ms := e.prog.MethodSets.MethodSet(iv.Tag)
	for k := 0; k < ms.Len(); k++ {
		if ms.At(k).Obj().Name() == method {
			fn := e.prog.MethodValue(ms.At(k))
			if fn == nil {
				break
			}
			return e.callFn(st, fr, fn, append([]Val{iv.V}, args...), c)
		}
	}
	fail("invoke %s on %v: no such method", method, iv.Tag)
	return nil
}

func (e *Engine) doCopy(st *State, dst, src SliceV) Val {
	// supported pattern: dst is a whole fresh allocation and the lengths are equal:
	// the fresh object's array becomes the source array and the slice window moves to the source offset.
	same := Eq(dst.Len, src.Len)
	if (!isZero(dst.Off) || !e.valid(st, same)) && bvWidth(dst.Elem) == 8 && !isFloat(dst.Elem) {
		// any other byte copy: min(len) bytes of the source arrive at the destination's window (memmove semantics),
		// writing pre-existing memory is a frame violation; what the destination's array holds outside the copied
		// range is forgotten (over-approximation)
		e.warn("copy outside the modelled pattern (whole fresh destination of the source's length): bytes outside the copied range are arbitrary afterwards (over-approximation)")
		zero := BVu(0, 64)
		n := Ite(SLe(dst.Len, src.Len), dst.Len, src.Len)
		if !st.spec {
			e.oblige(st, "frame:copy", Or(Eq(n, zero), Not(ULt(dst.Base, Add(alloc0, BVu(1, 64))))), "copy writes into a pre-existing slice")
		}
		srcArr := src.Arr
		if srcArr == nil {
			srcArr = st.arrOf(src.Base)
		}
		na := SymSort(fresh("copy_arr"), byteArrSort)
		st.assumeT(contentEq(na, dst.Off, srcArr, src.Off, n))
		st.setArr(dst.Base, na)
		delete(st.text, dst.Base.String())
		return n
	}
	if !e.valid(st, same) {
		fail("copy with lengths not provably equal")
	}
	if !isZero(dst.Off) {
		fail("copy into offset slice")
	}
	// rewrite every cell holding dst (same base, off 0) to the shifted window
	if bvWidth(dst.Elem) == 8 && !isFloat(dst.Elem) {
		st.setArr(dst.Base, st.arrOf(src.Base))
	} else {
		// other element types: every component array of the element type is copied as a whole
		prefix := elemFamily(dst.Elem)
		loc0 := loc{kind: "E", tn: typeName(dst.Elem)}
		// make sure the families exist (reading an element of src creates them)
		e.loadLoc(st, loc{kind: "E", tn: typeName(dst.Elem), ref: src.Base, idx: src.Off}, dst.Elem)
		_ = loc0
		for name, h := range st.heap {
			if strings.HasPrefix(name, prefix) {
				inner := &Term{Op: "select", Args: []*Term{h, src.Base}, W: -1, Sort: innerSortOf(h.Sort)}
				nh := Store(h, dst.Base, inner)
				nh.Sort = h.Sort
				st.heap[name] = nh
			}
		}
	}
	moved := SliceV{Base: dst.Base, Off: src.Off, Len: dst.Len, Cap: dst.Cap, Elem: dst.Elem}
	for id, v := range st.cells {
		if s, ok := v.(SliceV); ok && s.Base.String() == dst.Base.String() && isZero(s.Off) {
			st.cells[id] = moved
		}
	}
	for k, s := range st.arrBack {
		if s.Base.String() == dst.Base.String() && isZero(s.Off) {
			st.arrBack[k] = moved
		}
	}
	return dst.Len
}

func (e *Engine) valid(st *State, g *Term) bool {
	if g.IsTrue() {
		return true
	}
	if g.IsFalse() {
		return false
	}
	// validity is monotone in the path condition: a positive answer stays true on every extension of the path
	k := g.String()
	if st.validCache[k] {
		return true
	}
	if n, ok := st.invalidAt[k]; ok && n == len(st.pc) {
		return false
	}
	v := !e.inc.Sat(append(append([]*Term{}, st.pc...), Not(g)))
	if v {
		if st.validCache == nil {
			st.validCache = map[string]bool{}
		}
		st.validCache[k] = true
	} else {
		if st.invalidAt == nil {
			st.invalidAt = map[string]int{}
		}
		st.invalidAt[k] = len(st.pc)
	}
	return v
}

func (e *Engine) bufOf(st *State, v Val) (*BufObj, int) {
	switch x := v.(type) {
	case PtrObj:
		if b, ok := st.objs[x.ID].(*BufObj); ok {
			return b, x.ID
		}
	case IfaceV:
		return e.bufOf(st, x.V)
	}
	fail("expected *bytes.Buffer, got %T", v)
	return nil, 0
}

func (e *Engine) bufAppend(st *State, id int, ps ...Piece) {
	b := st.objs[id].(*BufObj)
	nb := &BufObj{Base: b.Base, Alias: b.Alias, Text: append(append([]Piece{}, b.Text...), ps...)}
	st.objs[id] = nb
}

func textLenLower(ps []Piece) uint64 {
	var n uint64
	for _, p := range ps {
		switch p.K {
		case "lit":
			n += uint64(len(p.S))
		case "num", "numsp":
			n += uint64(p.W)
		case "decs":
			n++
		}
	}
	return n
}

// sliceOfText creates a fresh byte slice carrying a text view.
func (e *Engine) sliceOfText(st *State, ps []Piece, str bool) SliceV {
	ps = normText(ps)
	base := st.allocRef()
	var l *Term
	if len(ps) == 0 {
		l = BVu(0, 64)
	} else if len(ps) == 1 && ps[0].K == "lit" {
		l = BVu(uint64(len(ps[0].S)), 64)
	} else if len(ps) == 1 && ps[0].K == "raw" {
		l = ps[0].Len
	} else {
		l = Sym(fresh("textlen"), 64)
		low := textLenLower(ps)
		st.assumeT(And(SLe(BVu(low, 64), l), SLt(l, BVu(1<<40, 64))))
		// abstract (recursive spec) pieces: one unfolding gives a guarded lower bound of their length, which is
		// what decides "never empty" for texts that end in such a piece
		for _, p := range ps {
			if p.K == "alt" {
				// guarded alternatives: each one bounds the length under its guard
				for _, al := range p.Alts {
					if extra := textLenLower(normText(al.P)); extra > 0 {
						st.assumeT(Implies(al.Cond, SLe(BVu(low+extra, 64), l)))
					}
				}
			}
			if p.K != "app" {
				continue
			}
			e.installUnfold(st)
			if alts, ok := unfoldHook(p); ok {
				for _, al := range alts {
					if extra := textLenLower(normText(al.P)); extra > 0 {
						st.assumeT(Implies(al.Cond, SLe(BVu(low+extra, 64), l)))
					}
				}
			}
		}
	}
	s := SliceV{Base: base, Off: BVu(0, 64), Len: l, Cap: l, Elem: types.Typ[types.Uint8], Str: str}
	st.text[base.String()] = ps
	return s
}

func (e *Engine) libCall(st *State, fr *Frame, name string, args []Val, c *ssa.CallCommon) ([]Outcome, bool) {
	one := func(v ...Val) ([]Outcome, bool) { return []Outcome{{st: st, ret: v}}, true }
	switch name {
	case "strings.IndexByte":
		// the index of the first occurrence of c in s, or -1: stated with two (named) quantified facts
		s, ch := args[0].(SliceV), asTerm(args[1])
		arr := s.Arr
		if arr == nil {
			arr = st.arrOf(s.Base)
		}
		i := Sym(fresh("indexbyte"), 64)
		zero := BVu(0, 64)
		none := func(hi *Term) *Term {
			k := BoundVar(fresh("k"), 64)
			body := Implies(And(SLe(zero, k), SLt(k, hi)), Not(Eq(Select(arr, Add(s.Off, k), 8), ch)))
			qf := &Term{Leaf: fresh("qf"), W: 0, QDef: Forall(k, body)}
			registerQFacts(qf, k, body, []traceRead{{s.Base.String(), Add(s.Off, k)}})
			return qf
		}
		st.assumeT(Or(And(Eq(i, BVu(^uint64(0), 64)), none(s.Len)),
			And(SLe(zero, i), SLt(i, s.Len), Eq(Select(arr, Add(s.Off, i), 8), ch), none(i))))
		st.instantiateAtLoggedReads(s.Base.String())
		return one(i)
	case "strings.ToLower":
		// Decided for inputs whose length is a known small constant on this path: if all bytes are ASCII the result
		// has the same length and every upper-case letter is replaced by its lower-case one. Anything else (unknown
		// length, a non-ASCII byte — Unicode case mapping may change the length) leaves the result unconstrained.
		s := args[0].(SliceV)
		n := -1
		for k := 0; k <= 16; k++ {
			if e.valid(st, Eq(s.Len, BVu(uint64(k), 64))) {
				n = k
				break
			}
		}
		base := st.allocRef()
		out := SliceV{Base: base, Off: BVu(0, 64), Len: Sym(fresh("lowerlen"), 64), Elem: types.Typ[types.Uint8], Str: true}
		out.Cap = out.Len
		st.assumeT(And(SLe(BVu(0, 64), out.Len), SLt(out.Len, BVu(1<<40, 64))))
		na := SymSort(fresh("lower_arr"), byteArrSort)
		st.setArr(base, na)
		if n >= 0 {
			ascii := tTrue
			same := Eq(out.Len, BVu(uint64(n), 64))
			for k := 0; k < n; k++ {
				b := st.readByte(s, BVu(uint64(k), 64))
				ascii = And(ascii, ULt(b, BVu(0x80, 8)))
				lower := Ite(And(ULe(BVu('A', 8), b), ULe(b, BVu('Z', 8))), Add(b, BVu(32, 8)), b)
				same = And(same, Eq(Select(na, BVu(uint64(k), 64), 8), lower))
			}
			st.assumeT(Implies(ascii, same))
		} else {
			// unknown length: an all-ASCII string keeps its length (one named quantified fact over its bytes); the
			// contents of the result stay unconstrained
			arr := s.Arr
			if arr == nil {
				arr = st.arrOf(s.Base)
			}
			zero := BVu(0, 64)
			k := BoundVar(fresh("k"), 64)
			body := Implies(And(SLe(zero, k), SLt(k, s.Len)), ULt(Select(arr, Add(s.Off, k), 8), BVu(0x80, 8)))
			qf := &Term{Leaf: fresh("qf"), W: 0, QDef: Forall(k, body)}
			registerQFacts(qf, k, body, []traceRead{{s.Base.String(), Add(s.Off, k)}})
			st.assumeT(Implies(qf, Eq(out.Len, s.Len)))
		}
		return one(out)
	case "(encoding/binary.littleEndian).Uint16", "(encoding/binary.littleEndian).Uint32", "(encoding/binary.littleEndian).Uint64",
		"(encoding/binary.bigEndian).Uint16", "(encoding/binary.bigEndian).Uint32", "(encoding/binary.bigEndian).Uint64":
		n := map[byte]int{'6': 2, '2': 4, '4': 8}[name[len(name)-1]]
		sl := args[1].(SliceV)
		e.oblige(st, "call-pre:binary.Uint", ULe(BVu(uint64(n), 64), sl.Len), name)
		if strings.Contains(name, "bigEndian") {
			return one(st.readBE(sl, BVu(0, 64), n))
		}
		return one(st.readLE(sl, BVu(0, 64), n))
	case "strconv.AppendInt", "strconv.AppendUint":
		dst := args[0].(SliceV)
		v := asTerm(args[1])
		var txt SliceV
		if name == "strconv.AppendInt" {
			txt = e.sliceOfText(st, []Piece{{K: "decs", T: v}}, false)
		} else {
			txt = e.sliceOfText(st, []Piece{Num(1, v)}, false)
		}
		if !isZero(dst.Len) {
			// appended to something: the built-in append of the rendered digits (same cases, same frame obligation)
			return e.doAppendBytes(st, fr, dst, txt), true
		}
		return one(txt)
	case "strconv.AppendFloat":
		f := asTerm(args[1])
		fm := asTerm(args[2])
		pr := asTerm(args[3])
		bs := asTerm(args[4])
		if dst, ok := args[0].(SliceV); !ok || !isZero(dst.Len) || !fm.IsConst() || !pr.IsConst() || !bs.IsConst() {
			if c != nil && c.StaticCallee() != nil {
				if outs, ok := e.pureLibFallback(st, fr, c.StaticCallee(), args); ok {
					return outs, true
				}
			}
			fail("AppendFloat with symbolic format or onto a non-empty slice")
		}
		if bs.Uint() == 32 && f.Op == "f32to64" {
			// a float32 widened exactly: identified by its 32 bits
			f = ZeroExt(f.Args[0], 64)
		}
		return one(e.sliceOfText(st, []Piece{{K: "float", T: f, Fmt: byte(fm.Uint()), Prec: int(pr.signedVal().Int64()), Size: int(bs.Uint())}}, false))
	case "math.Float32frombits", "math.Float64frombits":
		return one(args[0])
	case "fmt.Sprintf":
		ps := e.formatPieces(st, args[0].(SliceV), args[1])
		return one(e.sliceOfText(st, ps, true))
	case "fmt.Fprintf":
		_, id := e.bufOf(st, args[0])
		ps := e.formatPieces(st, args[1].(SliceV), args[2])
		e.bufAppend(st, id, ps...)
		return one(Sym(fresh("n"), 64), ErrV{NonNil: tFalse, ID: BVu(0, 64)})
	case "fmt.Errorf", "errors.New":
		return one(ErrV{NonNil: tTrue, ID: Sym(fresh("err"), 64)})
	case "bytes.NewReader":
		// a reader over the slice: the position is the only state
		s := args[0].(SliceV)
		id := st.newObj(&ReaderObj{Data: s, Pos: BVu(0, 64)})
		return one(PtrObj{id})
	case "(*bytes.Reader).Read":
		// copies min(len(p), remaining) bytes; io.EOF exactly when nothing remains (and p is not empty)
		r, id := e.readerOf(st, args[0])
		p := args[1].(SliceV)
		remaining := Sub(r.Data.Len, r.Pos)
		n := Ite(SLt(remaining, p.Len), remaining, p.Len)
		if !st.spec {
			e.oblige(st, "frame:store-bytes", Or(Eq(p.Len, BVu(0, 64)), Not(ULt(p.Base, Add(alloc0, BVu(1, 64))))), "Reader.Read writes into pre-existing byte memory")
		}
		na := SymSort(fresh("read_arr"), byteArrSort)
		srcArr := st.arrOf(r.Data.Base)
		dstArr := st.arrOf(p.Base)
		// the first n bytes are the reader's next n bytes, the rest of p is unchanged
		st.assumeT(contentEq(na, p.Off, srcArr, Add(r.Data.Off, r.Pos), n))
		k := BoundVar(fresh("k"), 64)
		keep := Implies(Or(SLt(k, Add(p.Off, n)), Not(SLt(k, Add(p.Off, p.Len)))), Eq(Select(na, k, 8), Select(dstArr, k, 8)))
		qf := &Term{Leaf: fresh("qf"), W: 0, QDef: Forall(k, keep)}
		registerQFacts(qf, k, keep, []traceRead{{p.Base.String(), k}})
		st.assumeT(qf)
		st.setArr(p.Base, na)
		delete(st.text, p.Base.String())
		atEnd := And(Eq(remaining, BVu(0, 64)), Not(Eq(p.Len, BVu(0, 64))))
		st.objs[id] = &ReaderObj{Data: r.Data, Pos: Add(r.Pos, n)}
		return one(n, ErrV{NonNil: atEnd, ID: Sym(fresh2("eof"), 64)})
	case "encoding/binary.Read":
		// supported: reading one fixed-width unsigned integer, little endian, from a *bytes.Reader into a local
		// variable. Enough bytes: the value, no error, the position advances; else an error (io.EOF /
		// io.ErrUnexpectedEOF) and the variable keeps its value.
		r, id := e.readerOf(st, args[0])
		var order Val = args[1]
		if iv, ok := order.(IfaceV); ok {
			order = iv.V
		}
		if !strings.Contains(fmt.Sprintf("%v %T", order, order), "ittleEndian") {
			if iv, ok := args[1].(IfaceV); !ok || iv.Tag == nil || !strings.Contains(iv.Tag.String(), "ittleEndian") {
				fail("binary.Read: only binary.LittleEndian is modelled (got %v)", args[1])
			}
		}
		var dst Val = args[2]
		if iv, ok := dst.(IfaceV); ok {
			dst = iv.V
		}
		pc, ok := dst.(PtrCell)
		if !ok {
			fail("binary.Read into %T (only pointers to local integers are modelled)", dst)
		}
		cur, ok := getPath(st.cells[pc.ID], pc.Path).(*Term)
		if !ok || cur.W < 8 || cur.W%8 != 0 {
			fail("binary.Read into a non-integer")
		}
		nb := cur.W / 8
		enough := Not(SLt(Sub(r.Data.Len, r.Pos), BVu(uint64(nb), 64)))
		var v *Term
		for i := nb - 1; i >= 0; i-- {
			b := st.readByte(r.Data, Add(r.Pos, BVu(uint64(i), 64)))
			if v == nil {
				v = b
			} else {
				v = Concat(v, b)
			}
		}
		st.cells[pc.ID] = setPath(st.cells[pc.ID], pc.Path, Ite(enough, v, cur))
		st.objs[id] = &ReaderObj{Data: r.Data, Pos: Ite(enough, Add(r.Pos, BVu(uint64(nb), 64)), r.Data.Len)}
		return one(ErrV{NonNil: Not(enough), ID: Sym(fresh2("eof"), 64)})
	case "bytes.NewBuffer":
		s := args[0].(SliceV)
		t, _ := e.textOf(st, s)
		if g, ok := gtext[s.Base.String()]; ok {
			t = g
		}
		id := st.newObj(&BufObj{Alias: &s, Text: t})
		return one(PtrObj{id})
	case "(*bytes.Buffer).Bytes":
		b, _ := e.bufOf(st, args[0])
		s := e.sliceOfText(st, b.Text, false)
		if b.Alias != nil {
			// Bytes() may alias the slice the buffer was created from (capacity is implementation-defined)
			choice := Sym(fresh("aliasChoice"), 0)
			base := Ite(choice, b.Alias.Base, s.Base)
			st.text[base.String()] = st.text[s.Base.String()]
			s.Base = base
		}
		if len(normText(b.Text)) == 0 {
			// Bytes() of an empty, never-written Buffer is a nil slice
			s.Base = BVu(0, 64)
		} else if !s.Len.IsConst() {
			nb := Ite(Eq(s.Len, BVu(0, 64)), BVu(0, 64), s.Base)
			st.text[nb.String()] = st.text[s.Base.String()]
			s.Base = nb
		}
		return one(s)
	case "(*bytes.Buffer).WriteByte":
		_, id := e.bufOf(st, args[0])
		ch := asTerm(args[1])
		if !ch.IsConst() {
			e.warn("WriteByte of a byte that is not a constant: the text written is arbitrary (over-approximation)")
			freshCtr++
			e.bufAppend(st, id, Piece{K: "opaque", ID: freshCtr})
			return one(ErrV{NonNil: tFalse, ID: BVu(0, 64)})
		}
		e.bufAppend(st, id, Lit(string([]byte{byte(ch.Uint())})))
		return one(ErrV{NonNil: tFalse, ID: BVu(0, 64)})
	case "(*bytes.Buffer).Write", "(*bytes.Buffer).WriteString":
		_, id := e.bufOf(st, args[0])
		t, _ := e.textOf(st, args[1].(SliceV))
		e.bufAppend(st, id, t...)
		return one(args[1].(SliceV).Len, ErrV{NonNil: tFalse, ID: BVu(0, 64)})
	case "bytes.TrimRight":
		// library contract: the result is the prefix s[:k] where k is the least length such that every byte of
		// s[k:] belongs to the cutset (single-byte literal cutsets only)
		s := args[0].(SliceV)
		ct, ok := e.textOf(st, args[1].(SliceV))
		if !ok || len(ct) != 1 || ct[0].K != "lit" || len(ct[0].S) != 1 {
			fail("bytes.TrimRight with a cutset that is not a one-byte literal")
		}
		cb := BVu(uint64(ct[0].S[0]), 8)
		k := Sym(fresh("trimlen"), 64)
		zero := BVu(0, 64)
		st.assumeT(And(SLe(zero, k), SLe(k, s.Len)))
		st.assumeT(Implies(Not(Eq(k, zero)), Not(Eq(st.readByte(s, Sub(k, BVu(1, 64))), cb))))
		j := BoundVar(fresh("j"), 64)
		st.assumeT(Forall(j, Implies(And(SLe(k, j), SLt(j, s.Len)), Eq(Select(st.arrOf(s.Base), Add(s.Off, j), 8), cb))))
		return one(SliceV{Base: s.Base, Off: s.Off, Len: k, Cap: s.Cap, Elem: s.Elem})
	case "(*sync.Once).Do":
		// library contract: the function runs on the first Do of this Once object and never again
		key := fmt.Sprintf("once|%v", args[0])
		if p, ok := args[0].(PtrHeap); ok {
			key = "once|" + p.Ref.String() + fmt.Sprint(p.Path)
		}
		if st.onceDone[key] {
			return one()
		}
		if st.onceDone == nil {
			st.onceDone = map[string]bool{}
		}
		st.onceDone[key] = true
		if fv, ok := args[1].(FuncV); ok {
			e.pendingParent = fr
			outs := e.execFunc(st, fv.Fn, nil, fv.Bind, fr.depth+1)
			return outs, true
		}
		fail("sync.Once.Do of a function value that is not a literal")
	case "time.Unix":
		return one(TimeV{Sec: asTerm(args[0])})
	case "context.WithCancel":
		// library contract: a derived context and its cancel function (a call through it is reported to the
		// contract file as callback "cancel")
		pc, _ := args[0].(IfaceSym)
		DeclareUF("ctxChild", []string{"I64"}, "I64")
		child := IfaceSym{ID: UF("ctxChild", 64, pc.ID), T: pc.T}
		st.assumeT(Not(Eq(child.ID, BVu(0, 64))))
		return one(child, FuncSym{ID: Sym(fresh("cancelfn"), 64), Name: "cancel"})
	case "encoding/json.Marshal":
		// library contract (assumed): for the value types used here Marshal succeeds or reports an error of a nested
		// marshaler; the bytes are a fresh, non-empty slice. What is handed to it is checked by the callers' contracts.
		out := e.sliceOfText(st, []Piece{{K: "opaque", ID: -9}}, false)
		st.assumeT(SLt(BVu(0, 64), out.Len))
		return one(out, ErrV{NonNil: Sym(fresh("jsonerr"), 0), ID: Sym(fresh("jsonerrid"), 64)})
	case "(time.Time).String":
		return one(e.sliceOfText(st, []Piece{{K: "opaque", ID: -10}}, true))
	case "time.Now":
		return one(TimeV{Sec: Sym(fresh("now"), 64)})
	case "(time.Time).UTC":
		t := args[0].(TimeV)
		return one(TimeV{Sec: t.Sec, Local: true, Zone: "utc"})
	case "(time.Time).Zone":
		// the zone in force at that instant: abstract name and offset
		t := args[0].(TimeV)
		DeclareUF("tmZoneOffset", []string{"I64"}, "I64")
		return one(e.sliceOfText(st, []Piece{{K: "opaque", ID: -7}}, true), UF("tmZoneOffset", 64, t.Sec))
	case "(time.Time).Unix":
		return one(args[0].(TimeV).Sec)
	case "(time.Time).Local":
		t := args[0].(TimeV)
		return one(TimeV{Sec: t.Sec, Local: true})
	case "(time.Time).Date", "(time.Time).Clock":
		t := args[0].(TimeV)
		if !t.Local {
			fail("non-local time formatting")
		}
		fs := []string{"tmYear", "tmMonth", "tmDay"}
		if strings.HasSuffix(name, "Clock") {
			fs = []string{"tmHour", "tmMinute", "tmSecond"}
		}
		var out []Val
		for _, f := range fs {
			// broken-down fields are abstract functions of the instant, one family per zone (local / UTC)
			fn := f + t.Zone
			DeclareUF(fn, []string{"I64"}, "I64")
			u := UF(fn, 64, t.Sec)
			st.assumeT(timeRange(f, u))
			out = append(out, u)
		}
		return one(out...)
	case "encoding/hex.EncodeToString", "strconv.Itoa":
		return one(e.sliceOfText(st, []Piece{{K: "opaque", ID: -1}}, true))
	}
	if strings.HasPrefix(name, "github.com/Breeze0806/gobinlog/internal/vspec.") {
		return e.vspecCall(st, fr, strings.TrimPrefix(name, "github.com/Breeze0806/gobinlog/internal/vspec."), args)
	}
	return nil, false
}

// formatPieces parses a literal format string and turns the arguments into pieces.
func (e *Engine) formatPieces(st *State, format SliceV, argv Val) []Piece {
	ft, ok := e.textOf(st, format)
	whole := func(why string) []Piece {
		e.warn("fmt: %s: the formatted text is arbitrary (over-approximation)", why)
		freshCtr++
		return []Piece{{K: "opaque", ID: freshCtr}}
	}
	if !ok || len(ft) != 1 || ft[0].K != "lit" {
		return whole("format string is not a literal")
	}
	f := ft[0].S
	var argl []Val
	switch a := argv.(type) {
	case ListV:
		argl = a.E
	case SliceV:
		if !isZero(a.Len) {
			return whole("arguments passed as a slice")
		}
	default:
		return whole("arguments passed as a slice")
	}
	var ps []Piece
	ai := 0
	for i := 0; i < len(f); i++ {
		if f[i] != '%' {
			j := i
			for j < len(f) && f[j] != '%' {
				j++
			}
			ps = append(ps, Lit(f[i:j]))
			i = j - 1
			continue
		}
		i++
		if f[i] == '%' {
			ps = append(ps, Lit("%"))
			continue
		}
		zero, plus := false, false
		for f[i] == '0' || f[i] == '+' {
			if f[i] == '0' {
				zero = true
			} else {
				plus = true
			}
			i++
		}
		if i >= len(f) || strings.IndexByte("-# ", f[i]) >= 0 {
			return whole("flag not modelled in " + strconv.Quote(f))
		}
		w, prec := 0, -1
		for f[i] >= '0' && f[i] <= '9' {
			w = w*10 + int(f[i]-'0')
			i++
		}
		if f[i] == '.' {
			i++
			prec = 0
			for f[i] >= '0' && f[i] <= '9' {
				prec = prec*10 + int(f[i]-'0')
				i++
			}
		}
		verb := f[i]
		if ai >= len(argl) {
			fail("format %q: missing argument", f)
		}
		arg := argl[ai]
		ai++
		iv, _ := arg.(IfaceV)
		switch verb {
		case 'd', 'v', 's':
			switch v := iv.V.(type) {
			case *Term:
				if v.W == 0 || plus {
					freshCtr++
					ps = append(ps, Piece{K: "opaque", ID: freshCtr})
					break
				}
				sg := isSigned(iv.Tag)
				var t64 *Term
				if sg {
					t64 = SignExt(v, 64)
				} else {
					t64 = ZeroExt(v, 64)
				}
				switch {
				case prec >= 0 && w == 0:
					// precision = minimum digits, sign not counted
					if sg {
						ps = append(ps, Piece{K: "decs", T: t64, W: prec + 1, Zero: true, S: "prec"})
					} else {
						ps = append(ps, Num(prec, t64))
					}
				case sg:
					ps = append(ps, Piece{K: "decs", T: t64, W: w, Zero: zero})
				case zero || w <= 1:
					ps = append(ps, Num(w, t64))
				default:
					ps = append(ps, Piece{K: "numsp", W: w, T: t64})
				}
			case SliceV:
				t, _ := e.textOf(st, v)
				ps = append(ps, t...)
			default:
				ps = append(ps, Piece{K: "opaque", ID: -2})
			}
		default:
			ps = append(ps, Piece{K: "opaque", ID: -3})
		}
	}
	return ps
}

var _ = strconv.Itoa
var _ = fmt.Sprint

// timeRange is the library contract of time.Time's broken-down fields.
func timeRange(f string, u *Term) *Term {
	lo, hi := uint64(0), uint64(59)
	switch f {
	case "tmYear":
		lo, hi = 1, 9999
	case "tmMonth":
		lo, hi = 1, 12
	case "tmDay":
		lo, hi = 1, 31
	case "tmHour":
		hi = 23
	}
	return And(ULe(BVu(lo, 64), u), ULe(u, BVu(hi, 64)))
}

// ufVal builds a value of type t whose components are uninterpreted functions of args.
func (e *Engine) ufVal(st *State, t types.Type, prefix string, args []*Term) Val {
	prefix = strings.NewReplacer(".", "_", "*", "P", "[", "_", "]", "_", "/", "_", " ", "").Replace(prefix)
	var sorts []string
	for _, a := range args {
		sorts = append(sorts, sortOf(a))
	}
	mk := func(comp string, w int) *Term {
		n := prefix + "_" + comp
		DeclareUF(n, sorts, sortOf(&Term{W: w}))
		return UF(n, w, args...)
	}
	if w := bvWidth(t); w >= 0 {
		return mk("v", w)
	}
	zero := BVu(0, 64)
	lim := BVu(1<<40, 64)
	switch u := t.Underlying().(type) {
	case *types.Slice:
		sl := SliceV{Base: mk("base", 64), Off: mk("off", 64), Len: mk("len", 64), Cap: mk("cap", 64), Elem: u.Elem()}
		sl.Base.Pre = true
		st.assumeT(And(ULt(sl.Base, alloc0), SLe(zero, sl.Off), SLt(sl.Off, lim), SLe(zero, sl.Len), SLe(sl.Len, sl.Cap), SLt(sl.Cap, lim)))
		return sl
	case *types.Basic:
		if isString(t) {
			sl := SliceV{Base: mk("base", 64), Off: mk("off", 64), Len: mk("len", 64), Elem: types.Typ[types.Uint8], Str: true}
			sl.Cap = sl.Len
			sl.Base.Pre = true
			st.assumeT(And(ULt(sl.Base, alloc0), SLe(zero, sl.Off), SLt(sl.Off, lim), SLe(zero, sl.Len), SLt(sl.Len, lim)))
			return sl
		}
	case *types.Struct:
		sv := StructV{T: t}
		for i := 0; i < u.NumFields(); i++ {
			sv.F = append(sv.F, e.ufVal(st, u.Field(i).Type(), fmt.Sprintf("%s_%d", prefix, i), args))
		}
		return sv
	case *types.Interface:
		if !isError(t) {
			return IfaceSym{ID: mk("iface", 64), T: t}
		}
		return ErrV{NonNil: mk("nonnil", 0), ID: mk("errid", 64)}
	case *types.Pointer:
		return PtrHeap{Ref: mk("p", 64), Root: u.Elem()}
	case *types.Chan:
		return OpaqueV{"chan"}
	case *types.Signature:
		return FuncSym{ID: mk("fn", 64), Name: prefix}
	}
	fail("ufVal: type %s", typeName(t))
	return nil
}

// doAppend models append(s, elems...) for non-byte slices: in place when capacity allows, else a fresh copy.
func (e *Engine) doAppend(st *State, fr *Frame, s SliceV, add ListV) []Outcome {
	n := BVu(uint64(len(add.E)), 64)
	newLen := Add(s.Len, n)
	fits := SLe(newLen, s.Cap)
	var outs []Outcome
	write := func(st2 *State, dst SliceV) {
		for k, el := range add.E {
			p := PtrElemH{S: dst, Idx: Add(s.Len, BVu(uint64(k), 64))}
			e.storeLoc(st2, e.elemLoc(p), dst.Elem, el)
		}
	}
	// in place
	st1 := st.clone()
	st1.assumeT(fits)
	if e.inc.Sat(st1.pc) {
		dst := SliceV{Base: s.Base, Off: s.Off, Len: newLen, Cap: s.Cap, Elem: s.Elem}
		if !st1.spec {
			e.oblige(st1, "frame:append-in-place", Not(ULt(s.Base, Add(alloc0, BVu(1, 64)))), "append writes into the spare capacity of a pre-existing slice")
		}
		write(st1, dst)
		outs = append(outs, Outcome{st: st1, ret: []Val{dst}})
	}
	// reallocate: fresh object sharing the old contents mapping (same window offset)
	st2 := st.clone()
	st2.assumeT(Not(fits))
	if e.inc.Sat(st2.pc) {
		base := st2.allocRef()
		capT := Sym(fresh("newcap"), 64)
		st2.assumeT(And(SLe(newLen, capT), SLt(capT, BVu(1<<40, 64))))
		dst := SliceV{Base: base, Off: s.Off, Len: newLen, Cap: capT, Elem: s.Elem}
		// copy every element heap of this element type from the old base to the new one
		prefix := "E_" + loc{kind: "E", tn: typeName(s.Elem)}.name("")[2:]
		for name, h := range st2.heap {
			if strings.HasPrefix(name, prefix) {
				inner := &Term{Op: "select", Args: []*Term{h, s.Base}, W: -1, Sort: innerSortOf(h.Sort)}
				nh := Store(h, base, inner)
				nh.Sort = h.Sort
				st2.heap[name] = nh
			}
		}
		write(st2, dst)
		outs = append(outs, Outcome{st: st2, ret: []Val{dst}})
	}
	return outs
}

// doAppendBytes models append(dst, src...) on byte slices. Nothing to add: dst itself (a nil dst stays nil). Room
// in dst: written in place (a frame obligation if dst is pre-existing memory). Otherwise a fresh object holding
// dst's bytes followed by src's. Contents are stated by (named) quantified equalities; when dst is empty the fresh
// object simply shows src's bytes.
func (e *Engine) doAppendBytes(st *State, fr *Frame, dst, src SliceV) []Outcome {
	zero := BVu(0, 64)
	newLen := Add(dst.Len, src.Len)
	var outs []Outcome
	srcArr := src.Arr
	if srcArr == nil {
		srcArr = st.arrOf(src.Base)
	}
	dstArr := st.arrOf(dst.Base)
	// nothing appended
	st0 := st.clone()
	st0.assumeT(Eq(src.Len, zero))
	if e.inc.Sat(st0.pc) {
		outs = append(outs, Outcome{st: st0, ret: []Val{dst}})
	}
	// in place
	st1 := st.clone()
	st1.assumeT(And(Not(Eq(src.Len, zero)), SLe(newLen, dst.Cap)))
	if e.inc.Sat(st1.pc) {
		if !st1.spec {
			e.oblige(st1, "frame:append-in-place", Not(ULt(dst.Base, Add(alloc0, BVu(1, 64)))), "append writes into the spare capacity of a pre-existing slice")
		}
		na := SymSort(fresh("app_arr"), byteArrSort)
		st1.assumeT(And(contentEq(na, dst.Off, dstArr, dst.Off, dst.Len), contentEq(na, Add(dst.Off, dst.Len), srcArr, src.Off, src.Len)))
		st1.setArr(dst.Base, na)
		delete(st1.text, dst.Base.String())
		outs = append(outs, Outcome{st: st1, ret: []Val{SliceV{Base: dst.Base, Off: dst.Off, Len: newLen, Cap: dst.Cap, Elem: dst.Elem}}})
	}
	// fresh object
	st2 := st.clone()
	st2.assumeT(And(Not(Eq(src.Len, zero)), Not(SLe(newLen, dst.Cap))))
	if e.inc.Sat(st2.pc) {
		base := st2.allocRef()
		capT := Sym(fresh("newcap"), 64)
		st2.assumeT(And(SLe(newLen, capT), SLt(capT, BVu(1<<40, 64))))
		res := SliceV{Base: base, Off: zero, Len: newLen, Cap: capT, Elem: dst.Elem}
		if e.valid(st2, Eq(dst.Len, zero)) {
			st2.setArr(base, srcArr)
			res.Off = src.Off
			res.Len = src.Len
		} else {
			na := SymSort(fresh("app_arr"), byteArrSort)
			st2.assumeT(And(contentEq(na, zero, dstArr, dst.Off, dst.Len), contentEq(na, dst.Len, srcArr, src.Off, src.Len)))
			st2.setArr(base, na)
		}
		outs = append(outs, Outcome{st: st2, ret: []Val{res}})
	}
	return outs
}

// doAppendSlice models append(dst, src...) for element types other than bytes, as far as shape and ownership go:
// nothing to add: dst itself; room: in place (frame obligation), the elements of that object become unknown; else a
// fresh object of unknown contents. (The contents are not tracked: sound, and enough for frame and safety
// obligations; a contract that needs the copied elements needs a stronger model.)
func (e *Engine) doAppendSlice(st *State, fr *Frame, dst, src SliceV) []Outcome {
	zero := BVu(0, 64)
	newLen := Add(dst.Len, src.Len)
	var outs []Outcome
	havocElems := func(s2 *State, base *Term) {
		prefix := "E_" + loc{kind: "E", tn: typeName(dst.Elem)}.name("")[2:]
		// make sure the families exist
		e.loadLoc(s2, loc{kind: "E", tn: typeName(dst.Elem), ref: base, idx: zero}, dst.Elem)
		for name, h := range s2.heap {
			if strings.HasPrefix(name, prefix) {
				nh := Store(h, base, SymSort(fresh("app_elems"), innerSortOf(h.Sort)))
				nh.Sort = h.Sort
				s2.heap[name] = nh
			}
		}
	}
	st0 := st.clone()
	st0.assumeT(Eq(src.Len, zero))
	if e.inc.Sat(st0.pc) {
		outs = append(outs, Outcome{st: st0, ret: []Val{dst}})
	}
	st1 := st.clone()
	st1.assumeT(And(Not(Eq(src.Len, zero)), SLe(newLen, dst.Cap)))
	if e.inc.Sat(st1.pc) {
		if !st1.spec {
			e.oblige(st1, "frame:append-in-place", Not(ULt(dst.Base, Add(alloc0, BVu(1, 64)))), "append writes into the spare capacity of a pre-existing slice")
		}
		havocElems(st1, dst.Base)
		outs = append(outs, Outcome{st: st1, ret: []Val{SliceV{Base: dst.Base, Off: dst.Off, Len: newLen, Cap: dst.Cap, Elem: dst.Elem}}})
	}
	st2 := st.clone()
	st2.assumeT(And(Not(Eq(src.Len, zero)), Not(SLe(newLen, dst.Cap))))
	if e.inc.Sat(st2.pc) {
		base := st2.allocRef()
		capT := Sym(fresh("newcap"), 64)
		st2.assumeT(And(SLe(newLen, capT), SLt(capT, BVu(1<<40, 64))))
		havocElems(st2, base)
		outs = append(outs, Outcome{st: st2, ret: []Val{SliceV{Base: base, Off: zero, Len: newLen, Cap: capT, Elem: dst.Elem}}})
	}
	return outs
}

func innerSortOf(s string) string {
	// "(Array Ref X)" -> X
	s = strings.TrimPrefix(s, "(Array Ref ")
	return strings.TrimSuffix(s, ")")
}

// applyContract replaces a call by the callee's contract: check requires, havoc results, assume ensures.
func (e *Engine) applyContract(st *State, fr *Frame, callee *ssa.Function, args []Val) []Outcome {
	if req := e.findContract(callee, "requires"); req != nil {
		g := e.evalContract(st, req, args, false)
		where := ""
		for _, in := range fr.inLoop {
			if in {
				where = "@loop" // the call is made inside a loop of the unit (after a loop head was passed)
			}
		}
		e.oblige(st, "call-pre:"+callee.Name()+where, g, "precondition of "+callee.Name()+" at call in "+fr.fn.Name())
		st.assumeT(g)
	}
	res := callee.Signature.Results()
	st.cut = true
	if mg := e.note(callee.Pkg.Func("vc_" + contractStem(callee) + "_modifies_ghost")); mg != nil {
		// the ghost variables the callee (through its hooks) may change: havocked, then constrained by its ensures
		for _, b := range mg.Blocks {
			for _, ins := range b.Instrs {
				if sto, ok := ins.(*ssa.Store); ok {
					if g, ok := sto.Addr.(*ssa.Global); ok && strings.HasPrefix(g.Name(), "vc") {
						et := g.Type().Underlying().(*types.Pointer).Elem()
						st.noPre = true
						v := st.freshVal(et, "ghost_"+g.Name())
						st.noPre = false
						if id, ok := st.globals[g.String()]; ok {
							st.cells[id] = v
						} else {
							id := st.newCell(v)
							cellTypes[id] = et
							st.globals[g.String()] = id
						}
					}
				}
			}
		}
	}
	var ret []Val
	for k := 0; k < res.Len(); k++ {
		// results are not known to be pre-existing memory
		st.noPre = true
		v := st.freshVal(res.At(k).Type(), "ret_"+callee.Name())
		st.noPre = false
		ret = append(ret, v)
	}
	cargs0 := append(append([]Val{}, args...), ret...)
	feasibleBefore := !st.spec && e.inc.Sat(st.pc)
	// buffers handed to the callee: their text becomes unknown and is then constrained by the callee's ensures,
	// in which BufOld means the text before this call
	savedOld := map[int][]Piece{}
	for _, a := range args {
		if p, ok := a.(PtrObj); ok {
			if b, ok := st.objs[p.ID].(*BufObj); ok {
				if prev, had := st.bufOld[p.ID]; had {
					savedOld[p.ID] = prev
				} else {
					savedOld[p.ID] = nil
				}
				if st.bufOld == nil {
					st.bufOld = map[int][]Piece{}
				}
				st.bufOld[p.ID] = b.Text
				freshCtr++
				st.objs[p.ID] = &BufObj{Base: b.Base, Alias: b.Alias, Text: []Piece{{K: "opaque", ID: freshCtr}}}
			}
		}
	}
	defer func() {
		for id, prev := range savedOld {
			if prev == nil {
				delete(st.bufOld, id)
			} else {
				st.bufOld[id] = prev
			}
		}
	}()
	for _, ens := range e.findContracts(callee, "ensures") {
		cargs := cargs0
		// clause parameters that name locals of the callee are existentially quantified here: fresh values
		for _, p := range ens.Params[min(len(cargs0), len(ens.Params)):] {
			st.noPre = true
			cargs = append(append([]Val{}, cargs...), st.freshVal(p.Type(), "ex_"+p.Name()))
			st.noPre = false
		}
		// the places a callee's postcondition talks about are instantiation sites for facts the caller holds
		saveLog := logSpecReads
		logSpecReads = true
		a := e.evalContract(st, ens, cargs, true)
		logSpecReads = saveLog
		st.assumeT(a)
		if feasibleBefore && !e.inc.Sat(st.pc) {
			// vacuity guard: a contract that cannot be satisfied at a reachable call site would silently end the path
			fail("contract of %s is unsatisfiable at a reachable call in %s (after clause %s)", callee.Name(), fr.fn.Name(), ens.Name())
		}
	}
	return []Outcome{{st: st, ret: ret}}
}

// flattenVal turns a value into the list of scalar terms that identify it.
func flattenVal(v Val) []*Term {
	switch x := v.(type) {
	case *Term:
		return []*Term{x}
	case SliceV:
		return []*Term{x.Base, x.Off, x.Len}
	case StructV:
		var ts []*Term
		for _, f := range x.F {
			ts = append(ts, flattenVal(f)...)
		}
		return ts
	case PtrHeap:
		ts := []*Term{x.Ref}
		for _, p := range x.Path {
			ts = append(ts, BVu(uint64(p), 64))
		}
		return ts
	case PtrElemH:
		ts := []*Term{x.S.Base, Add(x.S.Off, x.Idx)}
		for _, p := range x.Path {
			ts = append(ts, BVu(uint64(p), 64))
		}
		return ts
	case IfaceSym:
		return []*Term{x.ID}
	case ErrV:
		return []*Term{x.ID}
	case ListV, OpaqueV, NilV, IfaceV, FuncSym, MapV, TupleV:
		return nil
	}
	fail("flattenVal: %T", v)
	return nil
}

// callback models a call through a function value of unknown identity (a handler stored in a field): the
// callback contract vc_callback_<field>_requires is an obligation at the call site, the result is unconstrained;
// if it is an error the path is split on nil-ness and the hook vc_hook_callback_ok_<field> runs on the nil branch.
// Contract and hook parameters beyond the callback's own arguments are bound by name in the dynamic frame chain.
func (e *Engine) callback(st *State, fr *Frame, fv FuncSym, args []Val, c *ssa.CallCommon) []Outcome {
	sig := c.Signature()
	field := fieldNameOf(c.Value)
	if field == "" {
		field = chanName(c.Value) // a parameter or a local variable holding the function
	}
	if field == "" || field == "chan" {
		fail("call through a function value that cannot be named")
	}
	pkg := e.unitFn.Pkg
	bind := func(f *ssa.Function, s *State) []Val {
		out := append([]Val{}, args...)
		for _, p := range f.Params[min(len(args), len(f.Params)):] {
			v, ok := e.lookupName(s, fr, p.Name())
			if !ok {
				fail("%s: no variable named %s in scope at the callback", f.Name(), p.Name())
			}
			out = append(out, v)
		}
		return out
	}
	if req := e.note(pkg.Func("vc_callback_" + field + "_requires")); req != nil && !st.spec {
		g := e.evalContract(st, req, bind(req, st), false)
		e.oblige(st, "callback-pre:"+field, g, req.Name())
	}
	runHook := func(s *State, name string) *State {
		if hook := e.note(pkg.Func(name)); hook != nil {
			e.pendingParent = fr
			hs := e.execFunc(s, hook, bind(hook, s), nil, fr.depth+1)
			if len(hs) != 1 {
				fail("hook %s must be straight-line", hook.Name())
			}
			return hs[0].st
		}
		return s
	}
	n := sig.Results().Len()
	fresh := func(s *State) []Val {
		var ret []Val
		for k := 0; k < n; k++ {
			s.noPre = true
			ret = append(ret, s.freshVal(sig.Results().At(k).Type(), "cb_"+field))
			s.noPre = false
		}
		return ret
	}
	if n == 0 || !isError(sig.Results().At(n-1).Type()) {
		st2 := runHook(st.clone(), "vc_hook_callback_ok_"+field)
		return []Outcome{{st: st2, ret: fresh(st2)}}
	}
	var outs []Outcome
	// failure branch
	st1 := st.clone()
	r1 := fresh(st1)
	r1[n-1] = ErrV{NonNil: tTrue, ID: Sym(fresh2("cberr"), 64)}
	outs = append(outs, Outcome{st: st1, ret: r1})
	// success branch: run the hook
	st2 := runHook(st.clone(), "vc_hook_callback_ok_"+field)
	r2 := fresh(st2)
	r2[n-1] = ErrV{NonNil: tFalse, ID: BVu(0, 64)}
	e.nonNilUnlessError(st2, r2)
	outs = append(outs, Outcome{st: st2, ret: r2})
	return outs
}

func fresh2(p string) string { return fresh(p) }

// fieldNameOf: the struct field a function value was loaded from.
func fieldNameOf(v ssa.Value) string {
	if u, ok := v.(*ssa.UnOp); ok {
		if fa, ok := u.X.(*ssa.FieldAddr); ok {
			if pt, ok := fa.X.Type().Underlying().(*types.Pointer); ok {
				if st, ok := pt.Elem().Underlying().(*types.Struct); ok {
					return st.Field(fa.Field).Name()
				}
			}
		}
	}
	return ""
}

// lookupName finds a source variable by name: locals of the frame, captured variables and parameters, then the
// frames of the callers.
func (e *Engine) lookupName(st *State, fr *Frame, name string) (Val, bool) {
	for f := fr; f != nil; f = f.parent {
		if id, ok := f.named[name]; ok {
			return st.cells[id], true
		}
		for i, fv := range f.fn.FreeVars {
			if fv.Name() == name {
				if p, ok := f.regs[fv].(PtrCell); ok {
					return getPath(st.cells[p.ID], p.Path), true
				}
				_ = i
			}
		}
		if v, ok := f.entry[name]; ok {
			return v, true
		}
	}
	return nil, false
}

// nonNilUnlessError: convention assumed for abstract callees (observers, interface methods of the environment):
// when the error result is nil, pointer and interface results are non-nil. Listed among the unit's assumptions.
func (e *Engine) nonNilUnlessError(st *State, ret []Val) {
	var errNil *Term
	for _, r := range ret {
		if ev, ok := r.(ErrV); ok {
			errNil = Not(ev.NonNil)
		}
	}
	if errNil == nil {
		errNil = tTrue
		if len(ret) != 1 {
			return
		}
	}
	zero := BVu(0, 64)
	for _, r := range ret {
		switch x := r.(type) {
		case PtrHeap:
			st.assumeT(Implies(errNil, Not(Eq(x.Ref, zero))))
		case IfaceSym:
			st.assumeT(Implies(errNil, Not(Eq(x.ID, zero))))
		}
	}
}

func ifaceStem(t types.Type) string {
	n := typeName(t)
	if i := strings.LastIndex(n, "."); i >= 0 {
		n = n[i+1:]
	}
	return n
}

// chanName: the source name of a channel operand (local variable, captured variable or struct field).
func chanName(v ssa.Value) string {
	switch x := v.(type) {
	case *ssa.UnOp:
		switch a := x.X.(type) {
		case *ssa.Alloc:
			return a.Comment
		case *ssa.FreeVar:
			return a.Name()
		case *ssa.FieldAddr:
			if pt, ok := a.X.Type().Underlying().(*types.Pointer); ok {
				if st, ok := pt.Elem().Underlying().(*types.Struct); ok {
					return st.Field(a.Field).Name()
				}
			}
		}
	case *ssa.Parameter:
		return x.Name()
	case *ssa.Call:
		if x.Call.IsInvoke() {
			return x.Call.Method.Name() // e.g. ctx.Done()
		}
	case *ssa.ChangeType:
		return chanName(x.X)
	}
	return "chan"
}

// chanEvent: a channel operation of kind send / close / recv on the channel named by operand. The contract file may
// provide vc_chan_<kind>_ok_<name>() bool — an obligation at the operation (a plain send or receive without one is
// reported: it may block forever) — and vc_hook_chan_<kind>_<name>(value), which advances ghost state.
func (e *Engine) chanEvent(st *State, fr *Frame, kind string, operand ssa.Value, val Val) {
	if st.spec {
		return
	}
	name := chanName(operand)
	pkg := e.unitFn.Pkg
	okf := e.note(pkg.Func("vc_chan_" + kind + "_ok_" + name))
	if okf != nil {
		var args []Val
		for _, p := range okf.Params {
			v, ok := e.lookupName(st, fr, p.Name())
			if !ok {
				fail("%s: no variable named %s", okf.Name(), p.Name())
			}
			args = append(args, v)
		}
		e.oblige(st, "safe:chan-"+kind+":"+name, e.evalContract(st, okf, args, false), okf.Name())
	} else if kind != "select-send" && kind != "select-recv" {
		e.oblige(st, "safe:chan-"+kind+":"+name, tFalse, "channel "+kind+" on "+name+" without a contract (vc_chan_"+kind+"_ok_"+name+"): it may block or panic")
	}
	hk := strings.TrimPrefix(kind, "select-")
	if hook := e.note(pkg.Func("vc_hook_chan_" + hk + "_" + name)); hook != nil {
		var args []Val
		for i, p := range hook.Params {
			if i == 0 && val != nil {
				args = append(args, val)
				continue
			}
			v, ok := e.lookupName(st, fr, p.Name())
			if !ok {
				fail("%s: no variable named %s", hook.Name(), p.Name())
			}
			args = append(args, v)
		}
		e.pendingParent = fr
		hs := e.execFunc(st, hook, args, nil, fr.depth+1)
		if len(hs) != 1 {
			fail("hook %s must be straight-line", hook.Name())
		}
		*st = *hs[0].st
	}
}

// needsFnVal: the callee is a run-time value (interface receiver, function value, closure).
func needsFnVal(cc *ssa.CallCommon) bool {
	if _, isB := cc.Value.(*ssa.Builtin); isB {
		return false
	}
	if _, isMC := cc.Value.(*ssa.MakeClosure); isMC {
		return true
	}
	return cc.IsInvoke() || cc.StaticCallee() == nil
}

func sortName(s string) string {
	return strings.NewReplacer("(", "", ")", "", " ", "_").Replace(s)
}

// ReaderObj: a *bytes.Reader — the slice it reads from and how far it has got.
type ReaderObj struct {
	Data SliceV
	Pos  *Term
}

func (e *Engine) readerOf(st *State, v Val) (*ReaderObj, int) {
	if iv, ok := v.(IfaceV); ok {
		v = iv.V
	}
	if p, ok := v.(PtrObj); ok {
		if r, ok := st.objs[p.ID].(*ReaderObj); ok {
			return r, p.ID
		}
	}
	fail("expected *bytes.Reader, got %T", v)
	return nil, 0
}
