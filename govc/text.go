package main

// Text algebra: a text is a list of pieces; equality of two texts is reduced to
// a Bool term over the pieces' arguments (sound, incomplete).

import (
	"fmt"
	"math/big"
	"strings"
)

type Piece struct {
	K    string // lit | num | numsp | decs | raw | float | app | opaque
	S    string // lit text / app fn name
	W    int    // min width (num, numsp, decs)
	Zero bool   // decs: zero padding flag
	T    *Term  // num/numsp: unsigned 64-bit value; decs: signed 64-bit value; float: bits
	Base *Term  // raw
	Off  *Term
	Len  *Term
	Fmt  byte // float
	Prec int
	Size int
	Args []*Term     // app
	ID   int         // opaque
	Arr  *Term       // raw: the byte array the window reads (for extensional comparison)
	Fn   interface{} // app: *ssa.Function
	ArgV []Val       // app: original argument values (for unfolding)
	Alts []alt       // alt: guarded alternatives (exactly one guard holds)
}

// alt is one guarded alternative produced by unfolding a recursive spec text.
type alt struct {
	Cond *Term
	P    []Piece
}

// unfoldHook is installed by the engine: it unfolds an App piece one level.
var unfoldHook func(p Piece) ([]alt, bool)

// validHook is installed by the engine: is the condition valid under the current path condition?
var validHook func(c *Term) bool

func (p Piece) String() string {
	switch p.K {
	case "lit":
		return fmt.Sprintf("%q", p.S)
	case "num":
		return fmt.Sprintf("Num(%d,%s)", p.W, p.T)
	case "numsp":
		return fmt.Sprintf("NumSp(%d,%s)", p.W, p.T)
	case "decs":
		return fmt.Sprintf("DecS(w=%d,zero=%v,%s)", p.W, p.Zero, p.T)
	case "raw":
		return fmt.Sprintf("Raw(%s,%s,%s)", p.Base, p.Off, p.Len)
	case "float":
		return fmt.Sprintf("Float(%s,%c,%d,%d)", p.T, p.Fmt, p.Prec, p.Size)
	case "app":
		a := []string{}
		for _, x := range p.Args {
			a = append(a, x.String())
		}
		return fmt.Sprintf("%s(%s)", p.S, strings.Join(a, ","))
	case "opaque":
		return fmt.Sprintf("Text#%d", p.ID)
	case "alt":
		s := []string{}
		for _, al := range p.Alts {
			s = append(s, al.Cond.String()+" -> "+textString(al.P))
		}
		return "Alt{" + strings.Join(s, " | ") + "}"
	}
	return "?"
}

func textString(ps []Piece) string {
	s := []string{}
	for _, p := range ps {
		s = append(s, p.String())
	}
	return "[" + strings.Join(s, " ++ ") + "]"
}

func Lit(s string) Piece { return Piece{K: "lit", S: s} }
func Num(w int, t *Term) Piece {
	if w < 1 {
		w = 1
	}
	return Piece{K: "num", W: w, T: to64u(t)}
}
func to64u(t *Term) *Term {
	if t.W < 64 {
		return ZeroExt(t, 64)
	}
	return t
}

func pow10(n int) *Term {
	v := new(big.Int).Exp(big.NewInt(10), big.NewInt(int64(n)), nil)
	return BVConst(v, 64)
}

func normText(ps []Piece) []Piece {
	var out []Piece
	for _, p := range ps {
		switch p.K {
		case "lit":
			if p.S == "" {
				continue
			}
		case "num":
			if p.T.IsConst() {
				s := p.T.C.String()
				for len(s) < p.W {
					s = "0" + s
				}
				p = Lit(s)
			}
		case "numsp":
			if p.T.IsConst() {
				s := p.T.C.String()
				for len(s) < p.W {
					s = " " + s
				}
				p = Lit(s)
			}
		case "decs":
			if p.T.IsConst() {
				v := p.T.signedVal()
				s := v.String()
				neg := v.Sign() < 0
				if neg {
					s = s[1:]
				}
				w := p.W
				if neg || p.S == "prec" {
					w--
				}
				pad := " "
				if p.Zero {
					pad = "0"
				}
				for len(s) < w {
					s = pad + s
				}
				if neg {
					if p.Zero {
						s = "-" + s
					} else {
						s = strings.Replace(s, " "+strings.TrimLeft(s, " "), " -"+strings.TrimLeft(s, " "), 1)
						if !strings.Contains(s, "-") {
							s = "-" + s
						}
					}
				}
				p = Lit(s)
			}
		case "raw":
			if p.Len.IsConst() && p.Len.C.Sign() == 0 {
				continue
			}
		}
		if p.K == "lit" && len(out) > 0 && out[len(out)-1].K == "lit" {
			out[len(out)-1] = Lit(out[len(out)-1].S + p.S)
			continue
		}
		out = append(out, p)
	}
	return out
}

// expandDecS returns the (negative-branch, positive-branch) expansions of a signed decimal piece.
func expandDecS(p Piece) (neg *Term, negP, posP []Piece, ok bool) {
	zero := BVu(0, 64)
	neg = SLt(p.T, zero)
	if p.W > 0 && !p.Zero {
		// space padded signed: only the no-padding-needed case is expressible; treat as numsp for pos, unsupported for neg
		return neg, []Piece{Lit("-"), {K: "numsp", W: p.W - 1, T: Neg(p.T)}}, []Piece{{K: "numsp", W: p.W, T: p.T}}, false
	}
	wn := p.W - 1
	if wn < 1 {
		wn = 1
	}
	if p.S == "prec" { // %.Nd : N digits minimum, sign not counted (W holds N+1)
		return neg, []Piece{Lit("-"), Num(wn, Neg(p.T))}, []Piece{Num(wn, p.T)}, true
	}
	return neg, []Piece{Lit("-"), Num(wn, Neg(p.T))}, []Piece{Num(p.W, p.T)}, true
}

// MatchText returns a condition under which the two texts are equal.
// structural reports whether a mismatch was purely structural (no arithmetic side condition could decide).
var debugText = false

func MatchText(a, b []Piece) *Term {
	r := matchT(normText(a), normText(b), 0)
	if debugText {
		rs := r.String()
		fmt.Printf("MATCH %s\n   vs %s\n   => %s\n", abbrev(textString(normText(a))), abbrev(textString(normText(b))), abbrev(rs))
	}
	return r
}

func abbrev(s string) string {
	for {
		i := strings.Index(s, "(select (select")
		if i < 0 {
			break
		}
		// cut balanced parens
		d, j := 0, i
		for ; j < len(s); j++ {
			if s[j] == '(' {
				d++
			} else if s[j] == ')' {
				d--
				if d == 0 {
					break
				}
			}
		}
		if j >= len(s) {
			break
		}
		s = s[:i] + "SEL" + s[j+1:]
	}
	s = strings.ReplaceAll(s, "#x00000000", "#x")
	if len(s) > 1200 {
		s = s[:1200] + "..."
	}
	return s
}

func termsEq(xs, ys []*Term) *Term {
	if len(xs) != len(ys) {
		return tFalse
	}
	c := tTrue
	for i := range xs {
		if xs[i].W != ys[i].W {
			return tFalse
		}
		c = And(c, Eq(xs[i], ys[i]))
	}
	return c
}

func matchT(a, b []Piece, depth int) *Term {
	if depth > 64 {
		return tFalse
	}
	if len(a) == 0 && len(b) == 0 {
		return tTrue
	}
	if len(a) == 0 || len(b) == 0 {
		rest := a
		if len(a) == 0 {
			rest = b
		}
		c := tTrue
		for k, p := range rest {
			if p.K == "raw" {
				c = And(c, Eq(p.Len, BVu(0, 64)))
			} else if p.K == "alt" {
				for _, al := range p.Alts {
					c = And(c, Implies(al.Cond, matchT(normText(append(append([]Piece{}, al.P...), rest[k+1:]...)), nil, depth+1)))
				}
				return c
			} else if p.K == "app" && unfoldHook != nil && depth < 40 {
				alts, ok := unfoldHook(p)
				if !ok {
					return tFalse
				}
				for _, al := range alts {
					c = And(c, Implies(al.Cond, matchT(normText(append(append([]Piece{}, al.P...), rest[k+1:]...)), nil, depth+8)))
				}
				return c
			} else {
				return tFalse
			}
		}
		return c
	}
	x, y := a[0], b[0]
	// guarded alternatives: the text is al.P under al.Cond
	if x.K == "alt" {
		c := tTrue
		for _, al := range x.Alts {
			c = And(c, Implies(al.Cond, matchT(normText(append(append([]Piece{}, al.P...), a[1:]...)), b, depth+1)))
		}
		return c
	}
	if y.K == "alt" {
		return matchT(b, a, depth+1)
	}
	// signed expansions
	if x.K == "decs" && y.K == "decs" && x.W == y.W && x.Zero == y.Zero && x.S == y.S {
		return And(Eq(x.T, y.T), matchT(a[1:], b[1:], depth+1))
	}
	if x.K == "decs" {
		neg, np, pp, _ := expandDecS(x)
		return And(
			Implies(neg, matchT(normText(append(append([]Piece{}, np...), a[1:]...)), b, depth+1)),
			Implies(Not(neg), matchT(normText(append(append([]Piece{}, pp...), a[1:]...)), b, depth+1)))
	}
	if y.K == "decs" {
		return matchT(b, a, depth+1)
	}
	if debugText && (x.K == "app" || y.K == "app") {
		fmt.Printf("  matchT d=%d  %s  ||  %s\n", depth, abbrev(textString(a)), abbrev(textString(b)))
	}
	if x.K == "app" || y.K == "app" {
		if x.K == "app" && y.K == "app" && x.S == y.S {
			te := termsEq(x.Args, y.Args)
			// same abstract text applied to arguments that are equal on this path: no unfolding needed
			if te.IsTrue() || (validHook != nil && !te.IsFalse() && validHook(te)) {
				return matchT(a[1:], b[1:], depth+1)
			}
		}
		// unfold the right-hand App first (the goal side), else the left one
		if y.K == "app" && unfoldHook != nil && depth < 40 {
			if alts, ok := unfoldHook(y); ok {
				c := tTrue
				for _, al := range alts {
					nb := normText(append(append([]Piece{}, al.P...), b[1:]...))
					c = And(c, Implies(al.Cond, matchT(a, nb, depth+8)))
				}
				if !(x.K == "app" && x.S == y.S) {
					return c
				}
				return Or(And(termsEq(x.Args, y.Args), matchT(a[1:], b[1:], depth+1)), c)
			}
		}
		if x.K == "app" && unfoldHook != nil && depth < 40 {
			if alts, ok := unfoldHook(x); ok {
				c := tTrue
				for _, al := range alts {
					na := normText(append(append([]Piece{}, al.P...), a[1:]...))
					c = And(c, Implies(al.Cond, matchT(na, b, depth+8)))
				}
				return c
			}
		}
	}
	switch {
	case x.K == "lit" && y.K == "lit":
		switch {
		case strings.HasPrefix(x.S, y.S):
			ra := a[1:]
			if len(x.S) > len(y.S) {
				ra = append([]Piece{Lit(x.S[len(y.S):])}, a[1:]...)
			}
			return matchT(ra, b[1:], depth+1)
		case strings.HasPrefix(y.S, x.S):
			rb := append([]Piece{Lit(y.S[len(x.S):])}, b[1:]...)
			return matchT(a[1:], rb, depth+1)
		}
		return tFalse
	case (x.K == "num" || x.K == "numsp") && (y.K == "num" || y.K == "numsp"):
		mw := x.W
		if y.W > mw {
			mw = y.W
		}
		var side *Term
		if x.K == y.K && x.W == y.W {
			side = tTrue
		} else {
			side = Not(ULt(x.T, pow10(mw-1))) // no padding needed at either width
			if mw <= 1 {
				side = tTrue
			}
		}
		return And(Eq(x.T, y.T), side, matchT(a[1:], b[1:], depth+1))
	case x.K == "raw" && y.K == "raw":
		same := And(Eq(x.Base, y.Base), Eq(x.Off, y.Off))
		if x.Arr != nil && y.Arr != nil {
			if x.Arr.String() == y.Arr.String() {
				same = Eq(x.Off, y.Off)
			}
			if !same.IsTrue() {
				// a copy is as good as a window: same contents, byte for byte
				same = Or(same, contentEq(x.Arr, x.Off, y.Arr, y.Off, x.Len))
			}
		}
		return And(Eq(x.Len, y.Len), same, matchT(a[1:], b[1:], depth+1))
	case x.K == "float" && y.K == "float":
		if x.Fmt != y.Fmt || x.Prec != y.Prec || x.Size != y.Size || x.T.W != y.T.W {
			return tFalse
		}
		return And(Eq(x.T, y.T), matchT(a[1:], b[1:], depth+1))
	case x.K == "app" && y.K == "app":
		if x.S != y.S {
			return tFalse
		}
		return And(termsEq(x.Args, y.Args), matchT(a[1:], b[1:], depth+1))
	case x.K == "opaque" && y.K == "opaque":
		if x.ID != y.ID {
			return tFalse
		}
		return matchT(a[1:], b[1:], depth+1)
	case x.K == "raw" && y.K == "app" && len(a) == 1 && len(b) == 1 && x.Arr != nil:
		// bytes of unknown content against the (abstract) text of a spec function application: both are named by
		// uninterpreted text identities — equal identities is what a contract stating SameText(view, f(args)) gives
		return Eq(viewTextID(x), appTextID(y))
	case y.K == "raw" && x.K == "app" && len(a) == 1 && len(b) == 1 && y.Arr != nil:
		return Eq(viewTextID(y), appTextID(x))
	case x.K == "raw" && y.K != "raw":
		// a raw piece may be empty
		return And(Eq(x.Len, BVu(0, 64)), matchT(a[1:], b, depth+1))
	case y.K == "raw":
		return And(Eq(y.Len, BVu(0, 64)), matchT(a, b[1:], depth+1))
	}
	return tFalse
}

// contentEq: the n bytes at offA of arrA equal the n bytes at offB of arrB. The quantified formula is named by a
// Bool symbol (see QFact) and memoised, so that the same comparison made in a hypothesis and in a goal is the same
// atom — propositional reasoning then suffices.
var contentEqMemo = map[string]*Term{}

func contentEq(arrA, offA, arrB, offB, n *Term) *Term {
	ka := arrA.String() + "@" + offA.String()
	kb := arrB.String() + "@" + offB.String()
	if ka == kb {
		return tTrue
	}
	if kb < ka {
		ka, kb = kb, ka
		arrA, offA, arrB, offB = arrB, offB, arrA, offA
	}
	key := ka + "|" + kb + "|" + n.String()
	if t, ok := contentEqMemo[key]; ok {
		return t
	}
	k := BoundVar(fresh("k"), 64)
	all := Forall(k, Implies(And(SLe(BVu(0, 64), k), SLt(k, n)), Eq(Select(arrA, Add(offA, k), 8), Select(arrB, Add(offB, k), 8))))
	if arrA.hasBound || arrB.hasBound || offA.hasBound || offB.hasBound || n.hasBound {
		// inside another quantifier's body: the comparison depends on that bound variable and cannot be named globally
		all.hasBound = true
		return all
	}
	qf := &Term{Leaf: fresh("qfeq"), W: 0, QDef: all}
	// The same fact without a quantifier: the two byte sequences have the same identity. seqId maps (array, offset,
	// length) into an uninterpreted sort; under the interpretation "the sequence itself" qf <=> identities equal, so
	// the equivalence is a sound axiom — and it makes symmetry and transitivity of content equality (chains of
	// string comparisons) plain equality reasoning for every solver.
	DeclareUF("seqId", []string{byteArrSort, "I64", "I64"}, "SeqId")
	qf.Link = Eq(UFSort("seqId", "SeqId", arrA, offA, n), UFSort("seqId", "SeqId", arrB, offB, n))
	contentEqMemo[key] = qf
	return qf
}

// viewTextID / appTextID: abstract identities of a byte string. The identity of a view is a function of the bytes
// it shows (array, offset, length); the identity of f(args) a function of the arguments. For any two different
// byte strings there is an interpretation that tells them apart, so equality proved for all interpretations is
// equality of the strings.
func viewTextID(p Piece) *Term {
	DeclareUF("txtOfView", []string{byteArrSort, "I64", "I64"}, "I64")
	return UF("txtOfView", 64, p.Arr, p.Off, p.Len)
}

func appTextID(p Piece) *Term {
	name := fmt.Sprintf("txtOfApp_%s_a%d", p.S, len(p.Args))
	var sorts []string
	for _, a := range p.Args {
		sorts = append(sorts, sortOf(a))
	}
	DeclareUF(name, sorts, "I64")
	return UF(name, 64, p.Args...)
}
