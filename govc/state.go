package main

import (
	"fmt"
	"go/types"
	"sort"
	"strings"
	"sync"

	"golang.org/x/tools/go/ssa"
)

type Obligation struct {
	Unit       string
	Name       string
	PC         []*Term
	Goal       *Term
	Note       string
	Res        Result
	SMT        string
	Cut        bool // the path passed a cut point (loop invariant or callee contract): the model is not an input
	Inputs     map[string]string
	ReplaySrc  string
	ReplayNote string
}

// Obj is an executor-level library object.
type Obj interface{}

// MapObj models map[K]V with scalar keys: domain and value arrays (values flattened per component by name).
type MapObj struct {
	Dom  *Term            // Array K Bool
	Vals map[string]*Term // component -> Array K τ
	KeyW int
	ValT types.Type
	T    *types.Map
	Own  bool // every value ever stored is an object allocated by this call (engine-maintained: the map is local)
}

type BufObj struct {
	Base  *Term   // base ref of the backing storage the buffer may alias (nil = own)
	Alias *SliceV // initial slice given to NewBuffer (Bytes() may alias it)
	Text  []Piece
}

type State struct {
	pc          []*Term
	cells       map[int]Val
	heap        map[string]*Term
	objs        map[int]Obj
	text        map[string][]Piece // slice base (rendered) -> text view
	nalloc      int                // objects allocated since allocBase was set
	allocBase   *Term              // allocation watermark: every object allocated so far has a reference <= allocBase + nalloc
	allocated   []*Term
	spec        bool // executing a contract/spec function: no obligations, reads are total
	assume      bool // evaluating a contract as an assumption (BufIs binds)
	globals     map[string]int
	qfActive    map[string]bool // quantified-fact symbols that occur in the path condition
	qdone       map[string]bool
	bufOld      map[int][]Piece // text of a buffer at the entry of the unit (or, during a contracted call, before the call)
	entryDone   map[string]bool // entry-heap reference reads whose closure fact has been assumed
	readLog     []traceRead     // memory reads made by the code so far (instantiation sites for facts that appear later)
	replayDepth int
	keySk       []*Term // skolem constants of goals quantified over map keys
	iterKeys    []*Term // keys produced by map iterations on this path
	trace       *readTrace
	cut         bool
	onceDone    map[string]bool
	arrBack     map[string]SliceV // local byte arrays that were sliced: their contents live on the byte heap from then on
	validCache  map[string]bool   // conditions proved valid under a prefix of pc
	invalidAt   map[string]int    // conditions found not valid at this pc length
	goal        bool              // evaluating a contract clause as a proof goal (Forall may be skolemised)
	root        *State            // the real state a contract evaluation was started from
	noPre       bool              // values created now are not known to be pre-existing memory (results of contracted calls)
}

// QFact: a universally quantified formula that occurs in a contract is named by a Bool symbol qf (defined by
// the axiom qf <=> forall k. Body, emitted with every precise query). The fact is remembered so that the engine
// can instantiate it itself — manual E-matching — at the reads of the memory it talks about: the instance
// (qf => Body[k := i]) is a quantifier-free consequence of the axiom, valid on every path.
type QFact struct {
	QF    *Term  // the defining Bool symbol
	Key   string // base ref of the slice (bytes or elements) read inside the body
	Shift *Term  // the body reads absolute index Shift + BV of that memory
	BV    *Term
	Body  *Term
}

// auxTerms: assertions the engine added on its own (instances of quantified facts, definitional equations of
// recursive specification functions). Obligations are first tried without them (a sound weakening).
var auxTerms sync.Map

var (
	allQFacts   []*QFact
	looseQFacts []*QFact               // named quantified facts with reads at indices not of the form shift + k
	qfOfTerm    = map[*Term][]string{} // qf symbols mentioned by a term (cached)
)

var qfMu sync.Mutex

func qfNames(t *Term) []string {
	qfMu.Lock()
	defer qfMu.Unlock()
	if v, ok := qfOfTerm[t]; ok {
		return v
	}
	m := map[string]*Term{}
	t.leaves(m)
	var out []string
	for n, l := range m {
		if l.QDef != nil {
			out = append(out, n)
		}
	}
	qfOfTerm[t] = out
	return out
}

// instantiate assumes the instances of the active quantified facts (those whose defining symbol occurs in the
// path condition) that talk about absolute index abs of the memory with base key.
func (s *State) instantiate(key string, abs *Term) {
	if s.spec {
		// reads made while a contract is evaluated are places where later facts may be needed too
		if r := s.root; logSpecReads && r != nil && !r.spec && !abs.hasBound {
			r.logRead(key, abs)
		}
		return
	}
	if !abs.hasBound && s.replayDepth == 0 {
		s.logRead(key, abs)
	}
	if len(s.qfActive) == 0 {
		return
	}
	for n, f := range allQFacts {
		if f.Key != key || !s.qfActive[f.QF.Leaf] {
			continue
		}
		k := Sub(abs, f.Shift)
		id := fmt.Sprintf("%d|%s", n, k.String())
		if s.qdone == nil {
			s.qdone = map[string]bool{}
		}
		if s.qdone[id] {
			continue
		}
		s.qdone[id] = true
		s.addInst(Implies(f.QF, subst(f.Body, f.BV.Leaf, k)))
	}
}

// addInst assumes an instance of a quantified fact. Inner quantifiers that became closed are named and, being new,
// instantiated at the memory reads made so far.
func (s *State) addInst(inst *Term) {
	inst = liftInner(inst)
	auxTerms.Store(inst, true)
	s.pc = append(s.pc, inst)
	for _, n := range qfNames(inst) {
		if s.qfActive[n] {
			continue
		}
		if s.qfActive == nil {
			s.qfActive = map[string]bool{}
		}
		s.qfActive[n] = true
		// a fact that became active just now: instantiate it at the reads made so far. (Bounded: the reads are
		// replayed from a snapshot, are not logged again, and a fact that appears while replaying is replayed at
		// most two levels deep.)
		if s.replayDepth < 2 {
			keys := map[string]bool{}
			qfMu.Lock()
			for _, f := range allQFacts {
				if f.QF.Leaf == n {
					keys[f.Key] = true
				}
			}
			qfMu.Unlock()
			if len(keys) > 0 {
				s.replayDepth++
				for _, rd := range append([]traceRead{}, s.readLog...) {
					if keys[rd.key] {
						s.instantiate(rd.key, rd.abs)
					}
				}
				s.replayDepth--
			}
		}
	}
}

type readTrace struct {
	bases map[string]*Term // base -> slice offset
	reads []traceRead
}

type traceRead struct {
	key string // base rendering
	abs *Term  // absolute index (slice offset + index)
}

func newState() *State {
	return &State{cells: map[int]Val{}, heap: map[string]*Term{}, objs: map[int]Obj{}, text: map[string][]Piece{}, globals: map[string]int{}}
}

func (s *State) clone() *State {
	n := &State{pc: append([]*Term{}, s.pc...), cells: make(map[int]Val, len(s.cells)), heap: make(map[string]*Term, len(s.heap)),
		objs: make(map[int]Obj, len(s.objs)), text: make(map[string][]Piece, len(s.text)), nalloc: s.nalloc, allocBase: s.allocBase, allocated: append([]*Term{}, s.allocated...), spec: s.spec, assume: s.assume,
		qdone: map[string]bool{}, readLog: s.readLog, keySk: s.keySk, iterKeys: s.iterKeys, trace: s.trace, globals: map[string]int{}, cut: s.cut, goal: s.goal, root: s.root}
	for k, v := range s.globals {
		n.globals[k] = v
	}
	if len(s.bufOld) > 0 {
		n.bufOld = make(map[int][]Piece, len(s.bufOld))
		for k, v := range s.bufOld {
			n.bufOld[k] = v
		}
	}
	if len(s.entryDone) > 0 {
		n.entryDone = make(map[string]bool, len(s.entryDone))
		for k := range s.entryDone {
			n.entryDone[k] = true
		}
	}
	if len(s.validCache) > 0 {
		n.validCache = make(map[string]bool, len(s.validCache))
		for k := range s.validCache {
			n.validCache[k] = true
		}
	}
	if len(s.arrBack) > 0 {
		n.arrBack = make(map[string]SliceV, len(s.arrBack))
		for k, v := range s.arrBack {
			n.arrBack[k] = v
		}
	}
	if len(s.onceDone) > 0 {
		n.onceDone = make(map[string]bool, len(s.onceDone))
		for k := range s.onceDone {
			n.onceDone[k] = true
		}
	}
	if len(s.qfActive) > 0 {
		n.qfActive = make(map[string]bool, len(s.qfActive))
		for k := range s.qfActive {
			n.qfActive[k] = true
		}
	}
	for k := range s.qdone {
		n.qdone[k] = true
	}
	for k, v := range s.cells {
		n.cells[k] = v
	}
	for k, v := range s.heap {
		n.heap[k] = v
	}
	for k, v := range s.objs {
		n.objs[k] = v
	}
	for k, v := range s.text {
		n.text[k] = v
	}
	return n
}

func (s *State) logRead(key string, abs *Term) {
	if n := len(s.readLog); n > 0 && s.readLog[n-1].key == key && s.readLog[n-1].abs.String() == abs.String() {
		return
	}
	s.readLog = append(s.readLog[:len(s.readLog):len(s.readLog)], traceRead{key, abs})
}

// instantiateAtLoggedReads: facts about the memory with this base that became active just now are instantiated at
// the reads of that memory made so far.
func (s *State) instantiateAtLoggedReads(key string) {
	for _, rd := range append([]traceRead{}, s.readLog...) {
		if rd.key == key {
			s.instantiate(rd.key, rd.abs)
		}
	}
}

func (s *State) assumeT(t *Term) {
	if !t.IsTrue() {
		s.pc = append(s.pc, t)
		for _, n := range qfNames(t) {
			if s.qfActive == nil {
				s.qfActive = map[string]bool{}
			}
			s.qfActive[n] = true
		}
	}
}

type Frame struct {
	fn      *ssa.Function
	regs    map[ssa.Value]Val
	prev    *ssa.BasicBlock
	named   map[string]int // source local name -> cell id
	entry   map[string]Val // parameter values at entry
	iter    map[*ssa.BasicBlock]int
	inLoop  map[*ssa.BasicBlock]bool
	defers  []deferred
	depth   int
	loopPre map[string]Val // snapshots at loop entry: pre_<name>
	parent  *Frame         // the caller's frame (dynamic chain, for by-name binding)
}

type deferred struct {
	call *ssa.CallCommon
	args []Val
	fn   Val
}

func (f *Frame) clone() *Frame {
	n := &Frame{fn: f.fn, regs: make(map[ssa.Value]Val, len(f.regs)), prev: f.prev, named: make(map[string]int, len(f.named)),
		entry: f.entry, iter: make(map[*ssa.BasicBlock]int, len(f.iter)), inLoop: make(map[*ssa.BasicBlock]bool, len(f.inLoop)),
		defers: append([]deferred{}, f.defers...), depth: f.depth, loopPre: make(map[string]Val, len(f.loopPre)), parent: f.parent}
	for k, v := range f.regs {
		n.regs[k] = v
	}
	for k, v := range f.named {
		n.named[k] = v
	}
	for k, v := range f.iter {
		n.iter[k] = v
	}
	for k, v := range f.inLoop {
		n.inLoop[k] = v
	}
	for k, v := range f.loopPre {
		n.loopPre[k] = v
	}
	return n
}

// ---- fresh names, cells, allocation ----

var (
	freshCtr int
	cellCtr  int
	objCtr   int
)

var plainNames = false

// logSpecReads: while the unit's requires and case functions are evaluated, the places they read are remembered as
// instantiation sites for facts that library models state later (strings.IndexByte)
var logSpecReads = false

var plainUsed = map[string]bool{}
var plainUnique = false // set while the unit's parameters are created

func fresh(prefix string) string {
	if plainNames && !plainUnique {
		// ghost variables: the same name is the same symbol wherever the variable is first touched
		return prefix
	}
	if plainNames && !plainUsed[prefix] {
		// parameters keep their source names in models and replays — once: a second symbol asking for the same
		// name (two map parameters) gets a numbered one
		plainUsed[prefix] = true
		return prefix
	}
	freshCtr++
	return fmt.Sprintf("%s!%d", prefix, freshCtr)
}

var alloc0 = Sym("alloc0", 64)

// ifaceTags: interface type name -> the concrete type its values are assumed to have in this unit (-ifacetag).
var ifaceTags = map[string]types.Type{}

func (s *State) allocRef() *Term {
	s.nalloc++
	r := Add(s.watermarkBase(), BVu(uint64(s.nalloc), 64))
	s.allocated = append(s.allocated, r)
	return r
}

func (s *State) watermarkBase() *Term {
	if s.allocBase == nil {
		return alloc0
	}
	return s.allocBase
}

// watermark: every reference allocated by the call so far is <= this term.
func (s *State) watermark() *Term { return Add(s.watermarkBase(), BVu(uint64(s.nalloc), 64)) }

// raiseWatermark is applied at a loop head: an unknown number of objects may have been allocated by earlier
// iterations, so later allocations get references above a fresh symbolic watermark.
func (s *State) raiseWatermark() {
	wm := Sym(fresh("wm"), 64)
	s.assumeT(And(ULe(s.watermark(), wm), ULt(wm, BVu(1<<62, 64))))
	s.allocBase = wm
	s.nalloc = 0
}

func (s *State) newCell(v Val) int {
	cellCtr++
	s.cells[cellCtr] = v
	return cellCtr
}

func (s *State) newObj(o Obj) int {
	objCtr++
	s.objs[objCtr] = o
	return objCtr
}

// ---- byte heap ----

const byteArrSort = "ByteArr"
const bytesHeapSort = "(Array Ref ByteArr)"

func (s *State) bytesHeap() *Term {
	if h, ok := s.heap["Bytes"]; ok {
		return h
	}
	h := SymSort("Bytes0", bytesHeapSort)
	s.heap["Bytes"] = h
	return h
}

var zeroArr = &Term{Leaf: "((as const ByteArr) #x00)", W: -1, Sort: byteArrSort, Op: ""}

func (s *State) arrOf(base *Term) *Term {
	return SelectSort(s.bytesHeap(), base, byteArrSort)
}

func (s *State) readByte(sl SliceV, idx *Term) *Term {
	if lit, ok := litTable[sl.Base.String()]; ok {
		// a byte of a string literal at a constant index
		if at := Add(sl.Off, idx); at.IsConst() && at.Uint() < uint64(len(lit)) {
			return BVu(uint64(lit[at.Uint()]), 8)
		}
	}
	if sl.Arr != nil {
		return Select(sl.Arr, Add(sl.Off, idx), 8)
	}
	if s.trace != nil {
		s.trace.bases[sl.Base.String()] = sl.Off
		s.trace.reads = append(s.trace.reads, traceRead{sl.Base.String(), Add(sl.Off, idx)})
	}
	s.instantiate(sl.Base.String(), Add(sl.Off, idx))
	return Select(s.arrOf(sl.Base), Add(sl.Off, idx), 8)
}

func (s *State) writeByte(sl SliceV, idx, v *Term) {
	h := s.bytesHeap()
	arr := SelectSort(h, sl.Base, byteArrSort)
	n := Store(h, sl.Base, Store(arr, Add(sl.Off, idx), v))
	n.Sort = bytesHeapSort
	s.heap["Bytes"] = n
}

func (s *State) setArr(base, arr *Term) {
	n := Store(s.bytesHeap(), base, arr)
	n.Sort = bytesHeapSort
	s.heap["Bytes"] = n
}

// readBytes returns the big-endian concatenation data[off..off+n) (first byte most significant).
func (s *State) readBE(sl SliceV, at *Term, n int) *Term {
	var t *Term
	for i := 0; i < n; i++ {
		b := s.readByte(sl, Add(at, BVu(uint64(i), 64)))
		if t == nil {
			t = b
		} else {
			t = Concat(t, b)
		}
	}
	return t
}
func (s *State) readLE(sl SliceV, at *Term, n int) *Term {
	var t *Term
	for i := n - 1; i >= 0; i-- {
		b := s.readByte(sl, Add(at, BVu(uint64(i), 64)))
		if t == nil {
			t = b
		} else {
			t = Concat(t, b)
		}
	}
	return t
}

// freshVal builds an unconstrained symbolic value of type t (used for parameters and havoc).
func (s *State) freshVal(t types.Type, hint string) Val {
	if w := bvWidth(t); w >= 0 {
		return Sym(fresh(hint), w)
	}
	switch u := t.Underlying().(type) {
	case *types.Slice:
		return s.freshSlice(u.Elem(), hint, false)
	case *types.Basic:
		if isString(t) {
			return s.freshSlice(types.Typ[types.Uint8], hint, true)
		}
	case *types.Struct:
		sv := StructV{T: t}
		for i := 0; i < u.NumFields(); i++ {
			sv.F = append(sv.F, s.freshVal(u.Field(i).Type(), hint+"_"+u.Field(i).Name()))
		}
		return sv
	case *types.Pointer:
		if typeName(u.Elem()) == "bytes.Buffer" {
			// a buffer owned by the caller: non-nil, holding some text (named, so that contracts can speak of it)
			freshCtr++
			old := []Piece{{K: "opaque", ID: freshCtr}}
			id := s.newObj(&BufObj{Text: old})
			if s.bufOld == nil {
				s.bufOld = map[int][]Piece{}
			}
			s.bufOld[id] = old
			return PtrObj{id}
		}
		r := Sym(fresh(hint+"_ref"), 64)
		if !s.noPre {
			r.Pre = true
			s.assumeT(ULt(r, alloc0))
		}
		return PtrHeap{Ref: r, Root: u.Elem()}
	case *types.Array:
		av := ArrayV{T: t}
		for i := int64(0); i < u.Len(); i++ {
			av.E = append(av.E, s.freshVal(u.Elem(), fmt.Sprintf("%s_%d", hint, i)))
		}
		return av
	case *types.Map:
		return MapV{s.newObj(newMapObj(u, true))}
	case *types.Chan:
		return ChanV{ID: Sym(fresh(hint+"_chid"), 64), Cap: Sym(fresh(hint+"_chcap"), 64)}
	case *types.Signature:
		return FuncSym{ID: Sym(fresh(hint+"_fn"), 64), Name: hint}
	case *types.Interface:
		if isError(t) {
			return ErrV{NonNil: Sym(fresh(hint+"_nonnil"), 0), ID: Sym(fresh(hint+"_id"), 64)}
		}
		if ct, ok := ifaceTags[typeName(t)]; ok {
			// values of this interface type are assumed to have this dynamic type (stated in the unit's assumptions)
			return IfaceV{Tag: ct, V: s.freshVal(ct, hint)}
		}
		return IfaceSym{ID: Sym(fresh(hint+"_iface"), 64), T: t}
	}
	return OpaqueV{"fresh " + typeName(t)}
}

func (s *State) freshSlice(elem types.Type, hint string, str bool) SliceV {
	sl := SliceV{Base: Sym(fresh(hint+"_base"), 64), Off: Sym(fresh(hint+"_off"), 64), Len: Sym(fresh(hint+"_len"), 64), Elem: elem, Str: str}
	sl.Cap = Sym(fresh(hint+"_cap"), 64)
	if str {
		sl.Cap = sl.Len
	}
	lim := BVu(1<<40, 64)
	zero := BVu(0, 64)
	if !s.noPre {
		sl.Base.Pre = true
		s.assumeT(ULt(sl.Base, alloc0))
	}
	s.assumeT(And(SLe(zero, sl.Off), SLt(sl.Off, lim), SLe(zero, sl.Len), SLe(sl.Len, sl.Cap), SLt(sl.Cap, lim)))
	s.assumeT(Implies(Eq(sl.Base, zero), Eq(sl.Cap, zero))) // a nil slice has no capacity
	return sl
}

func zeroVal(t types.Type) Val {
	if w := bvWidth(t); w == 0 {
		return tFalse
	} else if w > 0 {
		return BVu(0, w)
	}
	switch u := t.Underlying().(type) {
	case *types.Struct:
		sv := StructV{T: t}
		for i := 0; i < u.NumFields(); i++ {
			sv.F = append(sv.F, zeroVal(u.Field(i).Type()))
		}
		return sv
	case *types.Array:
		av := ArrayV{T: t}
		for i := int64(0); i < u.Len(); i++ {
			av.E = append(av.E, zeroVal(u.Elem()))
		}
		return av
	case *types.Slice:
		z := BVu(0, 64)
		return SliceV{Base: z, Off: z, Len: z, Cap: z, Elem: u.Elem()}
	case *types.Basic:
		if isString(t) {
			z := BVu(0, 64)
			return SliceV{Base: z, Off: z, Len: z, Cap: z, Elem: types.Typ[types.Uint8], Str: true}
		}
	case *types.Interface:
		if isError(t) {
			return ErrV{NonNil: tFalse, ID: BVu(0, 64)}
		}
		return IfaceV{}
	case *types.Chan:
		return ChanV{ID: BVu(0, 64), Cap: BVu(0, 64)}
	}
	return NilV{T: t}
}

// heapFingerprint identifies the contents of every heap family (terms are immutable: pointer identity is enough).
func (s *State) heapFingerprint() string {
	names := make([]string, 0, len(s.heap))
	for n := range s.heap {
		names = append(names, n)
	}
	sort.Strings(names)
	var sb strings.Builder
	for _, n := range names {
		fmt.Fprintf(&sb, "%s=%p;", n, s.heap[n])
	}
	// what else a specification function can read besides its arguments and the heap: ghost variables (package-level
	// cells) and the contents of map objects
	gn := make([]string, 0, len(s.globals))
	for n := range s.globals {
		gn = append(gn, n)
	}
	sort.Strings(gn)
	for _, n := range gn {
		sb.WriteString(n + "=" + renderVals([]Val{s.cells[s.globals[n]]}))
	}
	ids := make([]int, 0, len(s.objs))
	for id, ob := range s.objs {
		if _, ok := ob.(*MapObj); ok {
			ids = append(ids, id)
		}
	}
	sort.Ints(ids)
	for _, id := range ids {
		m := s.objs[id].(*MapObj)
		fmt.Fprintf(&sb, "map%d=%p", id, m.Dom)
		cs := make([]string, 0, len(m.Vals))
		for c := range m.Vals {
			cs = append(cs, c)
		}
		sort.Strings(cs)
		for _, c := range cs {
			fmt.Fprintf(&sb, ",%s=%p", c, m.Vals[c])
		}
		sb.WriteByte(';')
	}
	return sb.String()
}
