package main

import (
	"fmt"
	"go/constant"
	"go/token"
	"go/types"
	"math"
	"os"
	"sort"
	"strings"

	"golang.org/x/tools/go/ssa"
)

type Outcome struct {
	st  *State
	ret []Val
	fr  *Frame // the returning frame (top-level unit only: by-name binding of ensures parameters)
}

type Engine struct {
	visited       map[*ssa.BasicBlock]bool // blocks of the unit's function entered by some explored path
	prog          *ssa.Program
	pkgs          map[string]*ssa.Package
	inc           *Inc
	obls          []*Obligation
	unit          string
	maxPaths      int
	paths         int
	loopHdr       map[*ssa.Function]map[*ssa.BasicBlock]int // header -> ordinal (1-based)
	loopBody      map[*ssa.BasicBlock]map[*ssa.BasicBlock]bool
	contracts     map[string]*ssa.Function // vc_* functions by name, per package path + "." + name
	bounded       int                      // unroll bound for loops without invariant
	havoc         map[string]bool          // callees replaced by havoc (probe only)
	stack         []*ssa.Function          // call stack
	recFns        map[*ssa.Function]bool
	unfoldFn      *ssa.Function
	unfoldBudget  int
	recApps       map[string]recApp  // rendered application -> (fn,args)
	recAxioms     map[string][]*Term // definitional equations of recursive applications (computed once)
	recTemplates  map[string]recApp  // per abstracted function: one registered application (shape of the arguments)
	noMerge       bool
	unitFn        *ssa.Function
	opaque        map[string]bool // spec functions kept abstract at call sites
	depCache      map[*ssa.Function]map[string]bool
	leafCache     map[*ssa.Function][]heapLeaf
	noPrune       int
	memo          map[string][]Val
	trace         bool
	warnings      map[string]bool
	variant       string
	entryArgs     []Val
	entrySt       *State
	reqWitness    string
	used          map[string]bool
	observer      map[string]bool // callees kept abstract as pure functions of their arguments
	pendingParent *Frame
}

type toolError struct{ msg string }

func fail(format string, a ...interface{}) { panic(toolError{fmt.Sprintf(format, a...)}) }

func (e *Engine) warn(format string, a ...interface{}) {
	m := fmt.Sprintf(format, a...)
	if !e.warnings[m] {
		e.warnings[m] = true
	}
}

func (e *Engine) oblige(st *State, name string, goal *Term, note string) {
	if st.spec {
		return
	}
	if goal.IsTrue() {
		e.obls = append(e.obls, &Obligation{Unit: e.unit, Name: name, PC: nil, Goal: goal, Note: note, Cut: st.cut})
		return
	}
	pc := append([]*Term{}, st.pc...)
	// quantified subformulas of the goal that became closed (inner quantifiers of skolemised ones) are named like
	// hypotheses are, and instantiated at the reads made so far: where they occur negatively in the goal they are
	// hypotheses of the query (an existential goal is proved from the instance at its witness)
	if g2 := liftInner(goal); g2 != goal {
		goal = g2
		names := map[string]bool{}
		for _, n := range qfNames(goal) {
			if !st.qfActive[n] {
				names[n] = true
			}
		}
		if len(names) > 0 {
			qfMu.Lock()
			fs := append([]*QFact{}, allQFacts...)
			qfMu.Unlock()
			seenI := map[string]bool{}
			for _, f := range fs {
				if !names[f.QF.Leaf] {
					continue
				}
				for _, rd := range st.readLog {
					if rd.key != f.Key {
						continue
					}
					inst := Implies(f.QF, subst(f.Body, f.BV.Leaf, Sub(rd.abs, f.Shift)))
					if k := inst.String(); !seenI[k] {
						seenI[k] = true
						auxTerms.Store(inst, true)
						pc = append(pc, inst)
					}
				}
			}
		}
	}
	pc = append(pc, e.defAxioms(st, append(append([]*Term{}, pc...), goal))...)
	if goal.Op == "and" && os.Getenv("GOVC_SPLIT") != "" {
		for k, g := range goal.Args {
			e.obls = append(e.obls, &Obligation{Unit: e.unit, Name: fmt.Sprintf("%s#%d", name, k), PC: pc, Goal: g, Note: note, Cut: st.cut})
		}
		return
	}
	e.obls = append(e.obls, &Obligation{Unit: e.unit, Name: name, PC: pc, Goal: goal, Note: note, Cut: st.cut})
}

// ---------- loops ----------

func (e *Engine) analyzeLoops(fn *ssa.Function) {
	if _, ok := e.loopHdr[fn]; ok {
		return
	}
	hdrs := map[*ssa.BasicBlock]int{}
	var order []*ssa.BasicBlock
	for _, b := range fn.Blocks {
		for _, p := range b.Preds {
			if b.Dominates(p) {
				if _, ok := hdrs[b]; !ok {
					hdrs[b] = 0
					order = append(order, b)
				}
				body := e.loopBody[b]
				if body == nil {
					body = map[*ssa.BasicBlock]bool{b: true}
					e.loopBody[b] = body
				}
				// natural loop of back edge p->b
				stack := []*ssa.BasicBlock{p}
				for len(stack) > 0 {
					x := stack[len(stack)-1]
					stack = stack[:len(stack)-1]
					if body[x] {
						continue
					}
					body[x] = true
					stack = append(stack, x.Preds...)
				}
			}
		}
	}
	sort.Slice(order, func(i, j int) bool { return order[i].Index < order[j].Index })
	for i, b := range order {
		hdrs[b] = i + 1
	}
	e.loopHdr[fn] = hdrs
}

// loopEffects: what a loop body may write — source locals (by name), heap families (prefix of the heap array
// names: F_<Struct>… for fields of objects, E_<Elem>… for slice elements, "Bytes" for byte memory), buffers, maps.
type loopEffects struct {
	names    map[string]bool
	families map[string]bool
	bytes    bool
	buf      bool
	all      bool // a call whose effect is not analysed: every family
	dyn      bool // a call through a function value
	maps     bool // a map update
	iters    bool // a map iterator advances
}

func (e *Engine) loopWrites(fn *ssa.Function, h *ssa.BasicBlock) (names map[string]bool, heapWrite bool, bufWrite bool) {
	fx := e.loopEffectsOf(fn, h)
	return fx.names, fx.bytes || fx.all || len(fx.families) > 0, fx.buf
}

func (e *Engine) loopEffectsOf(fn *ssa.Function, h *ssa.BasicBlock) *loopEffects {
	fx := &loopEffects{names: map[string]bool{}, families: map[string]bool{}}
	seen := map[*ssa.Function]bool{}
	for b := range e.loopBody[h] {
		e.blockEffects(b, fx, seen, 0, true)
	}
	if fx.dyn {
		// the body calls through a function value: it may be any closure made by this function, and a closure
		// writes the locals it captured
		for _, b := range fn.Blocks {
			for _, ins := range b.Instrs {
				mc, ok := ins.(*ssa.MakeClosure)
				if !ok {
					continue
				}
				cf := mc.Fn.(*ssa.Function)
				fvName := map[*ssa.FreeVar]string{}
				for i, fv := range cf.FreeVars {
					if a, ok := mc.Bindings[i].(*ssa.Alloc); ok && a.Comment != "" {
						fvName[fv] = a.Comment
					}
				}
				for _, cb := range cf.Blocks {
					for _, ci := range cb.Instrs {
						if st, ok := ci.(*ssa.Store); ok {
							if fv, ok := st.Addr.(*ssa.FreeVar); ok {
								if n, ok := fvName[fv]; ok {
									fx.names[n] = true
								}
								continue
							}
							root := st.Addr
							for {
								switch x := root.(type) {
								case *ssa.FieldAddr:
									root = x.X
									continue
								case *ssa.IndexAddr:
									root = x.X
									continue
								}
								break
							}
							if fv, ok := root.(*ssa.FreeVar); ok {
								if n, ok := fvName[fv]; ok {
									fx.names[n] = true
								}
							}
						}
					}
					e.blockEffects(cb, fx, seen, 1, false)
				}
			}
		}
	}
	return fx
}

func elemFamily(t types.Type) string { return loc{kind: "E", tn: typeName(t)}.name("") }
func objFamily(t types.Type) string  { return loc{kind: "F", tn: typeName(t)}.name("") }

func (e *Engine) blockEffects(b *ssa.BasicBlock, fx *loopEffects, seen map[*ssa.Function]bool, depth int, top bool) {
	for _, ins := range b.Instrs {
		switch i := ins.(type) {
		case *ssa.Store:
			e.storeEffect(i.Addr, fx, top)
		case *ssa.Next:
			fx.iters = true // the set of keys already produced changes
		case *ssa.MapUpdate:
			fx.maps = true // maps are havocked wholesale at loop heads
		case *ssa.Call:
			cc := &i.Call
			if bi, ok := cc.Value.(*ssa.Builtin); ok {
				switch bi.Name() {
				case "copy", "append":
					if st, ok := cc.Args[0].Type().Underlying().(*types.Slice); ok {
						if bvWidth(st.Elem()) == 8 && !isFloat(st.Elem()) {
							fx.bytes = true
						} else {
							fx.families[elemFamily(st.Elem())] = true
						}
					}
				}
				continue
			}
			f := cc.StaticCallee()
			if f == nil {
				if !cc.IsInvoke() {
					fx.all = true // call through a function value
					fx.dyn = true
				}
				continue // interface observers are pure by contract
			}
			n := f.String()
			if strings.HasPrefix(n, "fmt.Fprintf") || strings.HasPrefix(n, "(*bytes.Buffer).Write") {
				fx.buf = true
				continue
			}
			if f.Pkg == nil || e.pkgs[f.Pkg.Pkg.Path()] == nil || f.Blocks == nil {
				continue // library models do not write program memory
			}
			if e.findContract(f, "requires") != nil || len(e.findContracts(f, "ensures")) > 0 {
				for _, p := range f.Params {
					if pt, ok := p.Type().Underlying().(*types.Pointer); ok && typeName(pt.Elem()) == "bytes.Buffer" {
						fx.buf = true
					}
				}
				continue // contracted callees write nothing pre-existing (modifies = none); their results are fresh values
			}
			if seen[f] || depth > 4 {
				continue
			}
			seen[f] = true
			for _, cb := range f.Blocks {
				e.blockEffects(cb, fx, seen, depth+1, false)
			}
		}
	}
}

func (e *Engine) storeEffect(addr ssa.Value, fx *loopEffects, top bool) {
	switch x := addr.(type) {
	case *ssa.Alloc:
		if top && x.Comment != "" && x.Comment != "varargs" && x.Comment != "complit" && x.Comment != "slicelit" {
			fx.names[x.Comment] = true
		}
		if et := x.Type().Underlying().(*types.Pointer).Elem(); x.Heap {
			if _, ok := et.Underlying().(*types.Struct); ok {
				fx.families[objFamily(et)] = true
			}
		}
	case *ssa.IndexAddr:
		switch xt := x.X.Type().Underlying().(type) {
		case *types.Slice:
			if bvWidth(xt.Elem()) == 8 && !isFloat(xt.Elem()) {
				fx.bytes = true
			} else {
				fx.families[elemFamily(xt.Elem())] = true
			}
		default:
			e.storeEffect(x.X, fx, top) // element of a local array
		}
	case *ssa.FieldAddr:
		// walk to the base pointer of the chain of field selections
		base := x.X
		for {
			if fa, ok := base.(*ssa.FieldAddr); ok {
				base = fa.X
				continue
			}
			break
		}
		switch bx := base.(type) {
		case *ssa.Alloc:
			et := bx.Type().Underlying().(*types.Pointer).Elem()
			if _, isStruct := et.Underlying().(*types.Struct); isStruct && bx.Heap && (bx.Comment == "complit" || bx.Comment == "new") {
				fx.families[objFamily(et)] = true
			} else {
				e.storeEffect(bx, fx, top)
			}
		case *ssa.IndexAddr:
			if st, ok := bx.X.Type().Underlying().(*types.Slice); ok {
				fx.families[elemFamily(st.Elem())] = true
			} else {
				e.storeEffect(bx.X, fx, top)
			}
		default:
			if pt, ok := base.Type().Underlying().(*types.Pointer); ok {
				fx.families[objFamily(pt.Elem())] = true
			} else {
				fx.all = true
			}
		}
	case *ssa.Global:
		// ghost variables are havocked at loop heads; other globals may not be stored to (tool error at the store)
	default:
		fx.all = true
	}
}

// ---------- function execution ----------

func (e *Engine) execFunc(st *State, fn *ssa.Function, args []Val, bind []Val, depth int) []Outcome {
	if fn.Blocks == nil {
		fail("no body for %s", fn)
	}
	if depth > 12 {
		fail("call depth exceeded at %s", fn)
	}
	if !st.spec && isSpecName(fn.Name()) {
		// a specification function called from a hook: evaluated as specification code (pure, total reads)
		st.spec = true
		outs := e.execFunc(st, fn, args, bind, depth)
		for _, o := range outs {
			o.st.spec = false
		}
		st.spec = false
		return outs
	}
	if st.spec && e.opaque[fn.Name()] && !(e.unfoldFn == fn && e.unfoldBudget > 0) {
		return []Outcome{{st: st, ret: []Val{e.absApp(st, fn, args)}}}
	}
	if e.isRecursive(fn) {
		if !st.spec {
			fail("recursive function %s outside spec mode", fn)
		}
		if e.unfoldFn == fn && e.unfoldBudget > 0 {
			e.unfoldBudget--
		} else {
			return []Outcome{{st: st, ret: []Val{e.absApp(st, fn, args)}}}
		}
	}
	e.stack = append(e.stack, fn)
	defer func() { e.stack = e.stack[:len(e.stack)-1] }()
	e.analyzeLoops(fn)
	if st.spec && depth > 1 && scalarResults(fn) && !e.noMerge {
		// pure scalar spec function: evaluate path-wise on a clone and merge the results into one ite-term
		key := fn.String() + "|" + renderVals(e.derefLocals(st, args)) + "|" + st.heapFingerprint() + fmt.Sprint(st.assume)
		if m, ok := e.memo[key]; ok {
			return []Outcome{{st: st, ret: m}}
		}
		s2 := st.clone()
		s2.goal = false
		s2.pc = nil // merged evaluation is independent of the caller's path condition
		n0 := 0
		e.noPrune++
		outs := e.execBody(s2, fn, args, bind, depth)
		e.noPrune--
		if len(outs) == 0 {
			fail("spec function %s has no feasible path", fn.Name())
		}
		nres := fn.Signature.Results().Len()
		merged := make([]Val, nres)
		for k := 0; k < nres; k++ {
			var acc *Term
			for j := len(outs) - 1; j >= 0; j-- {
				v := asTerm(outs[j].ret[k])
				if acc == nil {
					acc = v
				} else {
					acc = Ite(And(outs[j].st.pc[n0:]...), v, acc)
				}
			}
			merged[k] = acc
		}
		e.memo[key] = merged
		return []Outcome{{st: st, ret: e.simplifyVals(st, merged)}}
	}
	return e.execBody(st, fn, args, bind, depth)
}

func scalarResults(fn *ssa.Function) bool {
	r := fn.Signature.Results()
	if r.Len() == 0 {
		return false
	}
	for k := 0; k < r.Len(); k++ {
		if bvWidth(r.At(k).Type()) < 0 {
			return false
		}
	}
	return true
}

func (e *Engine) execBody(st *State, fn *ssa.Function, args []Val, bind []Val, depth int) []Outcome {
	fr := &Frame{fn: fn, regs: map[ssa.Value]Val{}, named: map[string]int{}, entry: map[string]Val{},
		iter: map[*ssa.BasicBlock]int{}, inLoop: map[*ssa.BasicBlock]bool{}, depth: depth, loopPre: map[string]Val{}, parent: e.pendingParent}
	e.pendingParent = nil
	for i, p := range fn.Params {
		fr.regs[p] = args[i]
		fr.entry[p.Name()] = args[i]
	}
	for i, fv := range fn.FreeVars {
		fr.regs[fv] = bind[i]
	}
	return e.run(st, fr, fn.Blocks[0], 0)
}

func (e *Engine) get(st *State, fr *Frame, v ssa.Value) Val {
	switch c := v.(type) {
	case *ssa.Const:
		return constVal(c)
	case *ssa.Global:
		if strings.HasPrefix(c.Name(), "vc") { // ghost variable: an executor cell
			n := c.String()
			id, ok := st.globals[n]
			if !ok {
				et := c.Type().Underlying().(*types.Pointer).Elem()
				plainNames = true
				v := st.freshVal(et, c.Name())
				plainNames = false
				id = st.newCell(v)
				cellTypes[id] = et
				st.globals[n] = id
			}
			return PtrCell{ID: id}
		}
		return GlobalV{c}
	case *ssa.Function:
		return FuncV{Fn: c}
	case *ssa.Builtin:
		return OpaqueV{"builtin " + c.Name()}
	}
	if x, ok := fr.regs[v]; ok {
		return x
	}
	fail("no value for %s in %s", v.Name(), fr.fn)
	return nil
}

var strLits = map[string]*Term{}

func constVal(c *ssa.Const) Val {
	t := c.Type()
	if c.Value == nil {
		return zeroVal(t)
	}
	w := bvWidth(t)
	switch {
	case w == 0:
		return Bool(constant.BoolVal(c.Value))
	case w > 0 && isFloat(t):
		// floating-point values are carried as their IEEE bit patterns
		f, _ := constant.Float64Val(constant.ToFloat(c.Value))
		if w == 32 {
			return BVu(uint64(math.Float32bits(float32(f))), 32)
		}
		return BVu(math.Float64bits(f), 64)
	case w > 0:
		iv := constant.ToInt(c.Value)
		if isSigned(t) {
			i, _ := constant.Int64Val(iv)
			return BVi(i, w)
		}
		u, _ := constant.Uint64Val(iv)
		return BVu(u, w)
	case isString(t):
		return strConst(constant.StringVal(c.Value))
	}
	return OpaqueV{"const " + c.String()}
}

// string literals live at fixed pseudo-bases; their text view is the literal.
type strLit struct {
	s string
}

var litTable = map[string]string{} // base rendering -> literal

func strConst(s string) SliceV {
	key := fmt.Sprintf("lit!%x", []byte(s))
	if len(key) > 60 {
		key = fmt.Sprintf("lit!%x!%d", []byte(s[:20]), len(s))
	}
	base := Sym(key, 64)
	litTable[base.String()] = s
	n := BVu(uint64(len(s)), 64)
	return SliceV{Base: base, Off: BVu(0, 64), Len: n, Cap: n, Elem: types.Typ[types.Uint8], Str: true}
}

func (e *Engine) textOf(st *State, s SliceV) ([]Piece, bool) {
	if lit, ok := litTable[s.Base.String()]; ok && s.Off.IsConst() && s.Len.IsConst() {
		o, l := int(s.Off.Uint()), int(s.Len.Uint())
		if o+l <= len(lit) {
			return []Piece{Lit(lit[o : o+l])}, true
		}
	}
	if t, ok := st.text[s.Base.String()]; ok && isZero(s.Off) {
		return t, true
	}
	if !isZero(s.Off) {
		// a window at a non-zero offset whose text a contract stated (see SameText): known for exactly that view
		if t, ok := st.text[viewKey(s)]; ok {
			return t, true
		}
	}
	// package-level byte slices initialised from a literal hold their initial value: functions under contract
	// never store to globals (a store to a non-ghost global is a tool error) and never write pre-existing bytes (frame)
	if t, ok := gtext[s.Base.String()]; ok && isZero(s.Off) && len(t) == 1 && t[0].K == "lit" && s.Len.IsConst() && int(s.Len.Uint()) == len(t[0].S) {
		return t, true
	}
	arr := s.Arr
	if arr == nil {
		arr = st.arrOf(s.Base)
	}
	return []Piece{{K: "raw", Base: s.Base, Off: s.Off, Len: s.Len, Arr: arr}}, false
}

func viewKey(s SliceV) string { return s.Base.String() + "|" + s.Off.String() + "|" + s.Len.String() }

func asTerm(v Val) *Term {
	if t, ok := v.(*Term); ok {
		return t
	}
	fail("expected scalar, got %T (%v)", v, v)
	return nil
}

func (e *Engine) run(st *State, fr *Frame, b *ssa.BasicBlock, idx int) []Outcome {
	for {
		// loop header handling on block entry
		if idx == 0 {
			if ord, ok := e.loopHdr[fr.fn][b]; ok {
				if stop := e.enterLoopHeader(st, fr, b, ord); stop {
					return nil
				}
			}
		}
		instrs := b.Instrs
		for ; idx < len(instrs); idx++ {
			ins := instrs[idx]
			if fr.fn == e.unitFn && !st.spec {
				e.visited[b] = true
			}
			if e.trace {
				fmt.Printf("    [%s b%d] %s\n", fr.fn.Name(), b.Index, ins)
			}
			switch i := ins.(type) {
			case *ssa.DebugRef:
			case *ssa.Alloc:
				e.doAlloc(st, fr, i)
			case *ssa.Store:
				e.store(st, fr, e.get(st, fr, i.Addr), e.get(st, fr, i.Val), i)
			case *ssa.UnOp:
				fr.regs[i] = e.unop(st, fr, i)
			case *ssa.BinOp:
				fr.regs[i] = e.binop(st, i.Op, e.get(st, fr, i.X), e.get(st, fr, i.Y), i.X.Type(), i)
			case *ssa.Convert:
				fr.regs[i] = e.convert(st, e.get(st, fr, i.X), i.X.Type(), i.Type())
			case *ssa.ChangeType:
				fr.regs[i] = e.get(st, fr, i.X)
			case *ssa.MakeInterface:
				fr.regs[i] = IfaceV{Tag: i.X.Type(), V: e.get(st, fr, i.X)}
			case *ssa.ChangeInterface:
				fr.regs[i] = e.get(st, fr, i.X)
			case *ssa.IndexAddr:
				fr.regs[i] = e.indexAddr(st, fr, i)
			case *ssa.Index:
				fr.regs[i] = e.index(st, fr, i)
			case *ssa.FieldAddr:
				fr.regs[i] = e.fieldAddr(st, fr, i)
			case *ssa.Field:
				x := e.get(st, fr, i.X)
				sv, ok := x.(StructV)
				if !ok {
					fail("Field on %T", x)
				}
				fr.regs[i] = sv.F[i.Field]
			case *ssa.Slice:
				fr.regs[i] = e.slice(st, fr, i)
			case *ssa.MakeSlice:
				fr.regs[i] = e.makeSlice(st, fr, i)
			case *ssa.Extract:
				t := e.get(st, fr, i.Tuple)
				tt, ok := t.(TupleV)
				if !ok {
					fail("extract from %T", t)
				}
				fr.regs[i] = tt[i.Index]
			case *ssa.Phi:
				for k, p := range b.Preds {
					if p == fr.prev {
						fr.regs[i] = e.get(st, fr, i.Edges[k])
					}
				}
			case *ssa.MakeClosure:
				fv := FuncV{Fn: i.Fn.(*ssa.Function)}
				for _, bv := range i.Bindings {
					fv.Bind = append(fv.Bind, e.get(st, fr, bv))
				}
				fr.regs[i] = fv
			case *ssa.TypeAssert:
				fr.regs[i] = e.typeAssert(st, fr, i)
			case *ssa.MakeMap:
				fr.regs[i] = MapV{st.newObj(newMapObj(i.Type().Underlying().(*types.Map), false))}
			case *ssa.Range:
				mv, ok := e.get(st, fr, i.X).(MapV)
				if !ok {
					fail("range over %T (only maps are iterated through an iterator)", e.get(st, fr, i.X))
				}
				m := st.objs[mv.ID].(*MapObj)
				ks := sortOf(&Term{W: m.KeyW})
				seen := &Term{Leaf: "((as const (Array " + ks + " Bool)) false)", W: -1, Sort: "(Array " + ks + " Bool)"}
				fr.regs[i] = IterV{st.newObj(&IterObj{Map: mv.ID, Seen: seen})}
			case *ssa.Next:
				fr.regs[i] = e.mapNext(st, fr, i)
			case *ssa.Lookup:
				fr.regs[i] = e.mapLookup(st, fr, i)
			case *ssa.MapUpdate:
				e.mapUpdate(st, fr, i)
			case *ssa.Select:
				// nondeterministic choice among the cases; received values are unconstrained. A blocking select that
				// sends must offer a way out: a receive on a cancellation channel (ctx.Done()).
				if i.Blocking && !st.spec {
					hasSend, hasDone := false, false
					for _, sc := range i.States {
						if sc.Dir == types.SendOnly {
							hasSend = true
						} else if chanName(sc.Chan) == "Done" {
							hasDone = true
						}
					}
					if hasSend || len(i.States) > 1 {
						e.oblige(st, "safe:select-cancellable", Bool(hasDone), "a blocking select must have a ctx.Done() alternative (it could wait forever otherwise)")
					}
				}
				var res []Outcome
				for k, sc := range i.States {
					st2, fr2 := st.clone(), fr.clone()
					tup := TupleV{BVu(uint64(k), 64), Sym(fresh("recvok"), 0)}
					for _, sc2 := range i.States {
						if sc2.Dir == types.RecvOnly {
							et := sc2.Chan.Type().Underlying().(*types.Chan).Elem()
							tup = append(tup, st2.freshVal(et, "recv"))
						}
					}
					if sc.Dir == types.SendOnly {
						e.chanEvent(st2, fr2, "select-send", sc.Chan, e.get(st2, fr2, sc.Send))
					}
					fr2.regs[i] = tup
					res = append(res, e.run(st2, fr2, b, idx+1)...)
				}
				return res
			case *ssa.Call:
				outs := e.call(st, fr, i)
				if len(outs) == 1 && outs[0].st == st {
					fr.regs[i] = packRet(outs[0].ret)
					continue
				}
				var res []Outcome
				for _, o := range outs {
					f2 := fr.clone()
					f2.regs[i] = packRet(o.ret)
					res = append(res, e.run(o.st, f2, b, idx+1)...)
				}
				return res
			case *ssa.RunDefers:
				// deferred calls run in LIFO order with the values captured at the defer statements
				if len(fr.defers) == 0 {
					continue
				}
				return e.runDefers(st, fr, b, idx+1)
			case *ssa.Defer:
				d := deferred{call: &i.Call}
				for _, a := range i.Call.Args {
					d.args = append(d.args, e.get(st, fr, a))
				}
				if needsFnVal(&i.Call) {
					d.fn = e.get(st, fr, i.Call.Value)
				}
				fr.defers = append(fr.defers, d)
			case *ssa.Go:
				// the spawned body is verified as a unit of its own against the channel contracts; here only the
				// hook (if any) records that it was started
				name := "go"
				if f := i.Call.StaticCallee(); f != nil {
					name = f.Name()
				} else if mc, ok := i.Call.Value.(*ssa.MakeClosure); ok {
					name = mc.Fn.Name()
				}
				name = strings.NewReplacer("$", "_func").Replace(name)
				if hook := e.note(e.unitFn.Pkg.Func("vc_hook_go_" + name)); hook != nil && !st.spec {
					e.pendingParent = fr
					hs := e.execFunc(st, hook, e.bindByName(st, fr, hook), nil, fr.depth+1)
					if len(hs) != 1 {
						fail("hook %s must be straight-line", hook.Name())
					}
					st = hs[0].st
				} else {
					e.warn("go statement: %s is verified as its own unit", name)
				}
			case *ssa.MakeChan:
				fr.regs[i] = ChanV{ID: st.allocRef(), Cap: idx64(asTerm(e.get(st, fr, i.Size)), i.Size.Type())}
			case *ssa.Send:
				e.chanEvent(st, fr, "send", i.Chan, e.get(st, fr, i.X))
			case *ssa.If:
				c := asTerm(e.get(st, fr, i.Cond))
				if c.IsTrue() {
					fr.prev, b, idx = b, b.Succs[0], 0
					goto nextBlock
				}
				if c.IsFalse() {
					fr.prev, b, idx = b, b.Succs[1], 0
					goto nextBlock
				}
				{
					var res []Outcome
					st2, fr2 := st.clone(), fr.clone()
					st2.assumeT(c)
					if e.noPrune > 0 || e.inc.Sat(st2.pc) {
						fr2.prev = b
						res = append(res, e.run(st2, fr2, b.Succs[0], 0)...)
					}
					st.assumeT(Not(c))
					if e.noPrune > 0 || e.inc.Sat(st.pc) {
						fr.prev = b
						res = append(res, e.run(st, fr, b.Succs[1], 0)...)
					}
					return res
				}
			case *ssa.Jump:
				fr.prev, b, idx = b, b.Succs[0], 0
				goto nextBlock
			case *ssa.Return:
				var ret []Val
				for _, r := range i.Results {
					ret = append(ret, e.get(st, fr, r))
				}
				e.paths++
				if e.paths > e.maxPaths {
					fail("path cap exceeded in %s", fr.fn)
				}
				return []Outcome{{st: st, ret: ret, fr: fr}}
			case *ssa.Panic:
				e.oblige(st, "safe:panic", tFalse, fmt.Sprintf("panic reachable in %s", fr.fn.Name()))
				return nil
			default:
				fail("unsupported instruction %T: %s (in %s)", ins, ins, fr.fn)
			}
		}
		return nil
	nextBlock:
	}
}

func packRet(r []Val) Val {
	switch len(r) {
	case 0:
		return TupleV{}
	case 1:
		return r[0]
	}
	return TupleV(r)
}

// ---------- instruction helpers ----------

func (e *Engine) doAlloc(st *State, fr *Frame, a *ssa.Alloc) {
	et := a.Type().Underlying().(*types.Pointer).Elem()
	// library objects
	if typeName(et) == "bytes.Buffer" {
		id := st.newObj(&BufObj{})
		fr.regs[a] = PtrObj{id}
		return
	}
	if a.Heap && (a.Comment == "complit" || a.Comment == "new") {
		if _, isStruct := et.Underlying().(*types.Struct); isStruct {
			fr.regs[a] = e.newObject(st, et)
			return
		}
	}
	id := st.newCell(zeroVal(et))
	cellTypes[id] = et
	if a.Comment != "" {
		fr.named[a.Comment] = id
	}
	fr.regs[a] = PtrCell{ID: id}
}

func getPath(v Val, path []int) Val {
	for _, p := range path {
		switch x := v.(type) {
		case StructV:
			v = x.F[p]
		case ArrayV:
			v = x.E[p]
		default:
			fail("path into %T", v)
		}
	}
	return v
}

func setPath(v Val, path []int, nv Val) Val {
	if len(path) == 0 {
		return nv
	}
	switch x := v.(type) {
	case StructV:
		f := append([]Val{}, x.F...)
		f[path[0]] = setPath(f[path[0]], path[1:], nv)
		return StructV{T: x.T, F: f}
	case ArrayV:
		f := append([]Val{}, x.E...)
		f[path[0]] = setPath(f[path[0]], path[1:], nv)
		return ArrayV{T: x.T, E: f}
	}
	fail("setPath into %T", v)
	return nil
}

func (e *Engine) load(st *State, p Val, t types.Type) Val {
	switch x := p.(type) {
	case PtrCell:
		v := getPath(st.cells[x.ID], x.Path)
		if sl, ok := st.arrBack[fmt.Sprint(x.ID, x.Path)]; ok {
			if av, ok := v.(ArrayV); ok {
				// the array was sliced (and possibly written through the slice): its contents are on the byte heap
				na := ArrayV{T: av.T}
				for k := range av.E {
					na.E = append(na.E, st.readByte(sl, BVu(uint64(k), 64)))
				}
				return na
			}
		}
		return v
	case PtrElem:
		if w := bvWidth(x.S.Elem); w == 8 {
			return st.readByte(x.S, x.Idx)
		}
		return e.loadLoc(st, e.elemLoc(PtrElemH{S: x.S, Idx: x.Idx}), x.S.Elem)
	case GlobalV:
		return e.loadGlobal(st, x.G)
	case PtrObj:
		return x // value of a library object is its handle
	case PtrTable:
		return e.simplifyIte(st, x.T.lookup(x.Idx), 0)
	case PtrHeap:
		return e.loadLoc(st, e.heapLoc(x), typeAtPath(x.Root, x.Path))
	case PtrElemH:
		return e.loadLoc(st, e.elemLoc(x), typeAtPath(x.S.Elem, x.Path))
	}
	fail("load from %T", p)
	return nil
}

func (e *Engine) store(st *State, fr *Frame, p Val, v Val, ins ssa.Instruction) {
	switch x := p.(type) {
	case PtrCell:
		st.cells[x.ID] = setPath(st.cells[x.ID], x.Path, v)
	case GlobalV:
		n := x.G.String()
		if !strings.HasPrefix(x.G.Name(), "vc") {
			fail("store to non-ghost global %s", n)
		}
		if id, ok := st.globals[n]; ok {
			st.cells[id] = v
		} else {
			st.globals[n] = st.newCell(v)
		}
	case PtrElem:
		if bvWidth(x.S.Elem) == 8 {
			if !st.spec {
				e.oblige(st, "frame:store-bytes", Not(ULt(x.S.Base, Add(alloc0, BVu(1, 64)))), "store into pre-existing byte memory")
			}
			st.writeByte(x.S, x.Idx, asTerm(v))
			delete(st.text, x.S.Base.String())
			for k := range st.text {
				if strings.HasPrefix(k, x.S.Base.String()+"|") {
					delete(st.text, k)
				}
			}
			return
		}
		if !st.spec {
			e.oblige(st, "frame:store-elem", Not(ULt(x.S.Base, Add(alloc0, BVu(1, 64)))), "store into pre-existing slice memory")
		}
		e.storeLoc(st, e.elemLoc(PtrElemH{S: x.S, Idx: x.Idx}), x.S.Elem, v)
	case PtrHeap:
		if !st.spec {
			e.oblige(st, "frame:store-field", Not(ULt(x.Ref, Add(alloc0, BVu(1, 64)))), "store into pre-existing object "+typeName(x.Root))
		}
		e.storeLoc(st, e.heapLoc(x), typeAtPath(x.Root, x.Path), v)
	case PtrElemH:
		if !st.spec {
			e.oblige(st, "frame:store-elem", Not(ULt(x.S.Base, Add(alloc0, BVu(1, 64)))), "store into pre-existing slice memory")
		}
		e.storeLoc(st, e.elemLoc(x), typeAtPath(x.S.Elem, x.Path), v)
	default:
		fail("store to %T (%s)", p, ins)
	}
}

func (e *Engine) unop(st *State, fr *Frame, i *ssa.UnOp) Val {
	x := e.get(st, fr, i.X)
	switch i.Op {
	case token.MUL:
		return e.load(st, x, i.Type())
	case token.NOT:
		if t := asTerm(x); t.hasSk {
			fail("a quantified goal (vspec.Forall / ForallKeys) is negated in a contract clause: a skolemised quantifier is only valid in positive positions; state the negative case with vspec.Exists or with an explicit witness")
		}
		return Not(asTerm(x))
	case token.SUB:
		return Neg(asTerm(x))
	case token.XOR:
		return BNot(asTerm(x))
	case token.ARROW:
		// plain receive: the value is unconstrained; whether it may block forever is the contract's business
		e.chanEvent(st, fr, "recv", i.X, nil)
		et := i.X.Type().Underlying().(*types.Chan).Elem()
		st.noPre = true
		v := st.freshVal(et, "recv")
		st.noPre = false
		okT := Sym(fresh("recvok"), 0)
		// channel value invariant (assumed here; established by the sender's unit)
		if inv := e.note(e.unitFn.Pkg.Func("vc_chan_value_" + chanName(i.X))); inv != nil && !st.spec {
			st.assumeT(Implies(okT, e.evalContract(st, inv, []Val{v}, true)))
		}
		if i.CommaOk {
			return TupleV{v, okT}
		}
		return v
	}
	fail("unop %s", i.Op)
	return nil
}

func (e *Engine) binop(st *State, op token.Token, xv, yv Val, xt types.Type, ins ssa.Instruction) Val {
	if a, ok := xv.(*Term); ok && (op == token.EQL || op == token.NEQ) && a.W == 0 {
		if b, ok := yv.(*Term); ok && (a.hasSk || b.hasSk) {
			fail("a quantified goal (vspec.Forall / ForallKeys) is compared with == / != in a contract clause: a skolemised quantifier is only valid in positive positions; split the clause by polarity")
		}
	}
	// arrays of scalars compare element-wise
	if a, ok := xv.(ArrayV); ok {
		if b, ok := yv.(ArrayV); ok && len(a.E) == len(b.E) && (op == token.EQL || op == token.NEQ) {
			c := tTrue
			for k := range a.E {
				c = And(c, Eq(asTerm(a.E[k]), asTerm(b.E[k])))
			}
			if op == token.NEQ {
				return Not(c)
			}
			return c
		}
	}
	// nil comparisons
	switch a := xv.(type) {
	case SliceV:
		switch bb := yv.(type) {
		case SliceV:
			if (a.Str || bb.Str) && op == token.ADD {
				ta, _ := e.textOf(st, a)
				tb, _ := e.textOf(st, bb)
				return e.sliceOfText(st, append(append([]Piece{}, ta...), tb...), true)
			}
			if a.Str || bb.Str {
				// string comparison: only (in)equality against same view / literals
				ta, _ := e.textOf(st, a)
				tb, _ := e.textOf(st, bb)
				c := MatchText(ta, tb)
				if c.IsFalse() && !(len(ta) == 1 && len(tb) == 1 && ta[0].K == "lit" && tb[0].K == "lit") {
					// unknown: uninterpreted equality over views
					DeclareUF("strEq", []string{"Ref", "I64", "I64", "Ref", "I64", "I64"}, "Bool")
					c = UF("strEq", 0, a.Base, a.Off, a.Len, bb.Base, bb.Off, bb.Len)
				}
				if op == token.NEQ {
					return Not(c)
				}
				return c
			}
			// slice == nil
			other := bb
			isNil := And(Eq(a.Base, BVu(0, 64)))
			if isZero(a.Base) && isZero(a.Len) && isZero(a.Cap) {
				isNil = Eq(other.Base, BVu(0, 64))
			}
			if op == token.NEQ {
				return Not(isNil)
			}
			return isNil
		}
	case PtrHeap:
		var other *Term
		switch b := yv.(type) {
		case PtrHeap:
			other = b.Ref
		case NilV:
			other = BVu(0, 64)
		default:
			fail("pointer compared with %T", yv)
		}
		c := Eq(a.Ref, other)
		if op == token.NEQ {
			return Not(c)
		}
		return c
	case IfaceSym:
		var other *Term
		switch b := yv.(type) {
		case IfaceSym:
			other = b.ID
		case IfaceV:
			if b.Tag == nil {
				other = BVu(0, 64)
			}
		case NilV:
			other = BVu(0, 64)
		}
		if other == nil {
			fail("interface compared with %T", yv)
		}
		c := Eq(a.ID, other)
		if op == token.NEQ {
			return Not(c)
		}
		return c
	case FuncV:
		if _, ok := yv.(NilV); ok {
			return Bool(op == token.NEQ) // a function literal is never nil
		}
	case PtrElemH, PtrElem, PtrCell:
		if _, ok := yv.(NilV); ok {
			return Bool(op == token.NEQ) // the address of a variable or of an element is never nil
		}
	case ChanV, FuncSym:
		id := func(v Val) *Term {
			switch x := v.(type) {
			case ChanV:
				return x.ID
			case FuncSym:
				return x.ID
			case NilV:
				return BVu(0, 64)
			}
			fail("channel / function value compared with %T", v)
			return nil
		}
		c := Eq(id(xv), id(yv))
		if op == token.NEQ {
			return Not(c)
		}
		return c
	case IfaceV:
		// comparison of a path-known interface value with nil
		isNil := false
		switch b := yv.(type) {
		case NilV:
			isNil = true
		case IfaceV:
			isNil = b.Tag == nil
		case ErrV:
			isNil = b.NonNil.IsFalse()
		}
		if isNil {
			if op == token.NEQ {
				return Bool(a.Tag != nil)
			}
			return Bool(a.Tag == nil)
		}
	case PtrObj:
		if _, ok := yv.(NilV); ok {
			return Bool(op == token.NEQ) // library objects handed in are non-nil
		}
	case NilV:
		if _, ok := yv.(NilV); ok {
			return Bool(op == token.EQL)
		}
		if _, ok := yv.(PtrObj); ok {
			return Bool(op == token.NEQ)
		}
		switch b := yv.(type) {
		case ChanV:
			c := Eq(b.ID, BVu(0, 64))
			if op == token.NEQ {
				return Not(c)
			}
			return c
		case FuncSym:
			c := Eq(b.ID, BVu(0, 64))
			if op == token.NEQ {
				return Not(c)
			}
			return c
		}
		if b, ok := yv.(IfaceV); ok {
			if op == token.NEQ {
				return Bool(b.Tag != nil)
			}
			return Bool(b.Tag == nil)
		}
		if b, ok := yv.(PtrHeap); ok {
			c := Eq(b.Ref, BVu(0, 64))
			if op == token.NEQ {
				return Not(c)
			}
			return c
		}
	case ErrV:
		bErr, ok := yv.(ErrV)
		if ok && bErr.NonNil.IsFalse() {
			if op == token.NEQ {
				return a.NonNil
			}
			return Not(a.NonNil)
		}
		if ok {
			// identity of error values
			c := And(Eq(a.NonNil, bErr.NonNil), Or(Not(a.NonNil), Eq(a.ID, bErr.ID)))
			if op == token.NEQ {
				return Not(c)
			}
			return c
		}
		if iv, ok := yv.(IfaceV); ok && iv.Tag == nil {
			if op == token.NEQ {
				return a.NonNil
			}
			return Not(a.NonNil)
		}
		fail("error compared with %T", yv)
	}
	if sx, ok := xv.(StructV); ok {
		sy, ok := yv.(StructV)
		if !ok {
			fail("struct compared with %T", yv)
		}
		c := tTrue
		for k := range sx.F {
			ft := sx.T.Underlying().(*types.Struct).Field(k).Type()
			c = And(c, asTerm(e.binop(st, token.EQL, sx.F[k], sy.F[k], ft, ins)))
		}
		if op == token.NEQ {
			return Not(c)
		}
		return c
	}
	x, y := asTerm(xv), asTerm(yv)
	sg := isSigned(xt)
	if isFloat(xt) {
		// floating-point operators are uninterpreted functions of the bit patterns
		name := fmt.Sprintf("flt_%s_%d", map[token.Token]string{token.ADD: "add", token.SUB: "sub", token.MUL: "mul", token.QUO: "div",
			token.EQL: "eq", token.NEQ: "eq", token.LSS: "lt", token.LEQ: "le", token.GTR: "lt", token.GEQ: "le"}[op], x.W)
		bs := sortOf(x)
		switch op {
		case token.ADD, token.SUB, token.MUL, token.QUO:
			DeclareUF(name, []string{bs, bs}, bs)
			return UF(name, x.W, x, y)
		case token.EQL, token.LSS, token.LEQ:
			DeclareUF(name, []string{bs, bs}, "Bool")
			return UF(name, 0, x, y)
		case token.NEQ:
			DeclareUF(name, []string{bs, bs}, "Bool")
			return Not(UF(name, 0, x, y))
		case token.GTR, token.GEQ:
			DeclareUF(name, []string{bs, bs}, "Bool")
			return UF(name, 0, y, x)
		}
		fail("floating-point operator %s", op)
	}
	switch op {
	case token.ADD:
		return Add(x, y)
	case token.SUB:
		return Sub(x, y)
	case token.MUL:
		return Mul(x, y)
	case token.QUO:
		e.oblige(st, "safe:div", Not(Eq(y, BVu(0, y.W))), "division by zero")
		if sg {
			return SDiv(x, y)
		}
		return UDiv(x, y)
	case token.REM:
		e.oblige(st, "safe:div", Not(Eq(y, BVu(0, y.W))), "division by zero")
		if sg {
			return SRem(x, y)
		}
		return URem(x, y)
	case token.AND:
		if x.W == 0 {
			return And(x, y)
		}
		return BAnd(x, y)
	case token.OR:
		if x.W == 0 {
			return Or(x, y)
		}
		return BOr(x, y)
	case token.XOR:
		if x.W == 0 {
			return Not(Eq(x, y))
		}
		return BXor(x, y)
	case token.AND_NOT:
		return BAnd(x, BNot(y))
	case token.SHL, token.SHR:
		yy := y
		if y.W < x.W {
			yy = ZeroExt(y, x.W)
		} else if y.W > x.W {
			yy = Ite(Not(ULt(y, BVu(uint64(x.W), y.W))), BVu(uint64(x.W), x.W), Extract(x.W-1, 0, y))
		}
		if op == token.SHL {
			return Shl(x, yy)
		}
		if sg {
			return AShr(x, yy)
		}
		return LShr(x, yy)
	case token.EQL:
		return Eq(x, y)
	case token.NEQ:
		return Not(Eq(x, y))
	case token.LSS:
		if sg {
			return SLt(x, y)
		}
		return ULt(x, y)
	case token.LEQ:
		if sg {
			return SLe(x, y)
		}
		return ULe(x, y)
	case token.GTR:
		if sg {
			return SLt(y, x)
		}
		return ULt(y, x)
	case token.GEQ:
		if sg {
			return SLe(y, x)
		}
		return ULe(y, x)
	}
	fail("binop %s", op)
	return nil
}

func (e *Engine) convert(st *State, x Val, from, to types.Type) Val {
	if t, ok := x.(*Term); ok {
		w := bvWidth(to)
		if w > 0 && !isFloat(to) && !isFloat(from) {
			switch {
			case w == t.W:
				return t
			case w < t.W:
				return Extract(w-1, 0, t)
			case isSigned(from):
				return SignExt(t, w)
			default:
				return ZeroExt(t, w)
			}
		}
		if isFloat(from) && isFloat(to) {
			if t.W == w {
				return t
			}
			if t.W == 32 && w == 64 {
				DeclareUF("f32to64", []string{"(_ BitVec 32)"}, "(_ BitVec 64)")
				return UF("f32to64", 64, t)
			}
			DeclareUF("f64to32", []string{"(_ BitVec 64)"}, "(_ BitVec 32)")
			return UF("f64to32", 32, t)
		}
		if w > 0 && (isFloat(from) || isFloat(to)) {
			// float <-> integer conversions are uninterpreted (floating-point arithmetic is outside the subset:
			// obligations that depend on it cannot be discharged and are reported)
			sg := "u"
			if isSigned(from) || isSigned(to) {
				sg = "s"
			}
			dir := "f2i"
			if isFloat(to) {
				dir = "i2f"
			}
			name := fmt.Sprintf("%s_%s_%d_%d", dir, sg, t.W, w)
			DeclareUF(name, []string{sortOf(t)}, sortOf(&Term{W: w}))
			return UF(name, w, t)
		}
		fail("convert %s -> %s", typeName(from), typeName(to))
	}
	if s, ok := x.(SliceV); ok {
		// string <-> []byte : fresh copy with the same contents/text
		if (isString(from) && isByteSlice(to)) || (isByteSlice(from) && isString(to)) {
			n := SliceV{Base: st.allocRef(), Off: s.Off, Len: s.Len, Cap: s.Len, Elem: types.Typ[types.Uint8], Str: isString(to)}
			st.setArr(n.Base, st.arrOf(s.Base))
			if t, ok := e.textOf(st, s); ok {
				if !isZero(s.Off) {
					n.Off = BVu(0, 64)
				}
				st.text[n.Base.String()] = t
				n.Off = BVu(0, 64)
			}
			return n
		}
		if isString(from) && isString(to) || isByteSlice(from) && isByteSlice(to) {
			return s
		}
	}
	fail("convert %T %s -> %s", x, typeName(from), typeName(to))
	return nil
}

func (e *Engine) indexAddr(st *State, fr *Frame, i *ssa.IndexAddr) Val {
	x := e.get(st, fr, i.X)
	idx := asTerm(e.get(st, fr, i.Index))
	if idx.W < 64 {
		if isSigned(i.Index.Type()) {
			idx = SignExt(idx, 64)
		} else {
			idx = ZeroExt(idx, 64)
		}
	}
	switch s := x.(type) {
	case SliceV:
		g := ULt(idx, s.Len)
		e.oblige(st, "safe:index", g, fmt.Sprintf("index in %s", fr.fn.Name()))
		if !st.spec {
			st.assumeT(g)
		}
		if bvWidth(s.Elem) != 8 {
			return PtrElemH{S: s, Idx: idx}
		}
		return PtrElem{S: s, Idx: idx}
	case PtrCell:
		if back, ok := st.arrBack[fmt.Sprint(s.ID, s.Path)]; ok {
			g := ULt(idx, back.Len)
			e.oblige(st, "safe:index", g, fmt.Sprintf("index in %s", fr.fn.Name()))
			return PtrElem{S: back, Idx: idx}
		}
		// pointer to array cell: &arr[i] with concrete i
		if idx.IsConst() {
			return PtrCell{ID: s.ID, Path: append(append([]int{}, s.Path...), int(idx.Uint()))}
		}
		fail("symbolic index into array cell")
	case GlobalV:
		return e.globalIndexAddr(st, s, idx)
	case TableV:
		g := ULt(idx, BVu(uint64(len(s.Elems)), 64))
		e.oblige(st, "safe:index", g, "table index "+s.Name)
		if !st.spec {
			st.assumeT(g)
		}
		return PtrTable{T: s, Idx: idx}
	}
	fail("indexaddr on %T", x)
	return nil
}

func (e *Engine) index(st *State, fr *Frame, i *ssa.Index) Val {
	x := e.get(st, fr, i.X)
	idx := asTerm(e.get(st, fr, i.Index))
	switch s := x.(type) {
	case SliceV: // string indexing
		idx = idx64(idx, i.Index.Type())
		g := ULt(idx, s.Len)
		e.oblige(st, "safe:index", g, "string index")
		return st.readByte(s, idx)
	case ArrayV:
		if idx.IsConst() {
			return s.E[idx.Uint()]
		}
	}
	fail("index on %T", x)
	return nil
}

func (e *Engine) fieldAddr(st *State, fr *Frame, i *ssa.FieldAddr) Val {
	x := e.get(st, fr, i.X)
	switch p := x.(type) {
	case PtrCell:
		return PtrCell{ID: p.ID, Path: append(append([]int{}, p.Path...), i.Field)}
	case PtrHeap:
		if !st.spec {
			e.oblige(st, "safe:nil", Not(Eq(p.Ref, BVu(0, 64))), "nil dereference of *"+typeName(p.Root))
			st.assumeT(Not(Eq(p.Ref, BVu(0, 64))))
		}
		return PtrHeap{Ref: p.Ref, Root: p.Root, Path: append(append([]int{}, p.Path...), i.Field)}
	case PtrElemH:
		return PtrElemH{S: p.S, Idx: p.Idx, Path: append(append([]int{}, p.Path...), i.Field)}
	case PtrElem:
		return PtrElemH{S: p.S, Idx: p.Idx, Path: []int{i.Field}}
	case NilV:
		pt, _ := i.X.Type().Underlying().(*types.Pointer)
		if st.spec && pt != nil {
			// specification code reads are total: a nil pointer denotes the object at reference 0
			return PtrHeap{Ref: BVu(0, 64), Root: pt.Elem(), Path: []int{i.Field}}
		}
		e.oblige(st, "safe:nil", tFalse, "nil dereference")
		if pt != nil {
			return PtrHeap{Ref: BVu(0, 64), Root: pt.Elem(), Path: []int{i.Field}}
		}
	}
	fail("fieldaddr on %T", x)
	return nil
}

func (e *Engine) slice(st *State, fr *Frame, i *ssa.Slice) Val {
	x := e.get(st, fr, i.X)
	var s SliceV
	switch v := x.(type) {
	case SliceV:
		s = v
	case PtrCell: // slicing a local array: materialise it on the heap
		av, ok := getPath(st.cells[v.ID], v.Path).(ArrayV)
		if !ok {
			fail("slice of cell holding %T", st.cells[v.ID])
		}
		if et := av.T.Underlying().(*types.Array).Elem(); bvWidth(et) != 8 {
			if i.Low != nil || i.High != nil {
				// make([]T, 0, N) with constant N: `new [N]T (makeslice)` sliced [:0]
				hi := BVu(uint64(len(av.E)), 64)
				if i.High != nil {
					hi = asTerm(e.get(st, fr, i.High))
				}
				if i.Low == nil && isZero(hi) {
					return SliceV{Base: st.allocRef(), Off: BVu(0, 64), Len: hi, Cap: BVu(uint64(len(av.E)), 64), Elem: et}
				}
				fail("partial slice of non-byte local array")
			}
			return ListV{E: av.E, Elem: et}
		}
		bkey := fmt.Sprint(v.ID, v.Path)
		if back, ok := st.arrBack[bkey]; ok {
			s = back
			break
		}
		base := st.allocRef()
		arr := zeroArr
		n := len(av.E)
		st.setArr(base, arr)
		s = SliceV{Base: base, Off: BVu(0, 64), Len: BVu(uint64(n), 64), Cap: BVu(uint64(n), 64), Elem: types.Typ[types.Uint8]}
		if st.arrBack == nil {
			st.arrBack = map[string]SliceV{}
		}
		st.arrBack[bkey] = s
		allConst := true
		lit := make([]byte, 0, len(av.E))
		for k, el := range av.E {
			st.writeByte(s, BVu(uint64(k), 64), asTerm(el))
			if t := asTerm(el); t.IsConst() {
				lit = append(lit, byte(t.Uint()))
			} else {
				allConst = false
			}
		}
		if allConst {
			st.text[base.String()] = []Piece{Lit(string(lit))}
		}
	default:
		fail("slice of %T", x)
	}
	lo, hi := BVu(0, 64), s.Len
	if i.Low != nil {
		lo = idx64(asTerm(e.get(st, fr, i.Low)), i.Low.Type())
	}
	if i.High != nil {
		hi = idx64(asTerm(e.get(st, fr, i.High)), i.High.Type())
	}
	limit := s.Cap
	if s.Str {
		limit = s.Len
	}
	g := And(ULe(lo, hi), ULe(hi, limit))
	e.oblige(st, "safe:slice", g, fmt.Sprintf("slice bounds in %s", fr.fn.Name()))
	if !st.spec {
		st.assumeT(g)
	}
	n := SliceV{Base: s.Base, Off: Add(s.Off, lo), Len: Sub(hi, lo), Cap: Sub(s.Cap, lo), Elem: s.Elem, Str: s.Str}
	if s.Str {
		n.Cap = n.Len
	}
	return n
}

// idx64 widens an index / length operand to 64 bits according to its Go type.
func idx64(t *Term, ty types.Type) *Term {
	if t.W >= 64 {
		return t
	}
	if isSigned(ty) {
		return SignExt(t, 64)
	}
	return ZeroExt(t, 64)
}

func (e *Engine) makeSlice(st *State, fr *Frame, i *ssa.MakeSlice) Val {
	l := idx64(asTerm(e.get(st, fr, i.Len)), i.Len.Type())
	c := idx64(asTerm(e.get(st, fr, i.Cap)), i.Cap.Type())
	el := i.Type().Underlying().(*types.Slice).Elem()
	e.oblige(st, "safe:makeslice", And(SLe(BVu(0, 64), l), SLe(l, c)), "makeslice len")
	base := st.allocRef()
	if bvWidth(el) == 8 {
		st.setArr(base, zeroArr)
	}
	return SliceV{Base: base, Off: BVu(0, 64), Len: l, Cap: c, Elem: el}
}

func (e *Engine) typeAssert(st *State, fr *Frame, i *ssa.TypeAssert) Val {
	x := e.get(st, fr, i.X)
	iv, ok := x.(IfaceV)
	if !ok {
		fail("typeassert on %T", x)
	}
	match := iv.Tag != nil && types.Identical(iv.Tag, i.AssertedType)
	if i.CommaOk {
		if match {
			return TupleV{iv.V, tTrue}
		}
		return TupleV{zeroVal(i.AssertedType), tFalse}
	}
	if !match {
		e.oblige(st, "safe:typeassert", tFalse, "type assertion fails")
	}
	return iv.V
}

// ---------- globals ----------

var globalInit = map[*ssa.Global]Val{}

func (e *Engine) loadGlobal(st *State, g *ssa.Global) Val {
	n := g.String()
	if id, ok := st.globals[n]; ok {
		return st.cells[id]
	}
	if strings.HasPrefix(g.Name(), "vc") { // ghost variable declared in the contract file
		et := g.Type().Underlying().(*types.Pointer).Elem()
		plainNames = true
		v := st.freshVal(et, g.Name())
		plainNames = false
		st.globals[n] = st.newCell(v)
		return v
	}
	if et := g.Type().Underlying().(*types.Pointer).Elem(); isIfaceNotErr(et) {
		// package-level interface variables (the logger) are initialised at package init and only ever replaced by
		// non-nil values: assumed non-nil, listed among the assumptions
		id := Sym("global!"+g.Name(), 64)
		st.assumeT(Not(Eq(id, BVu(0, 64))))
		e.warn("assumed: package-level interface variable %s is non-nil", g.Name())
		return IfaceSym{ID: id, T: et}
	}
	switch n {
	case "encoding/binary.LittleEndian", "encoding/binary.BigEndian":
		return OpaqueV{n}
	}
	if mt, ok := g.Type().Underlying().(*types.Pointer).Elem().Underlying().(*types.Map); ok {
		// a package-level map built by a composite literal with constant string keys and constant values in the
		// package initialiser, and never written afterwards (a store to a non-ghost global or a map update of it would
		// be a tool error): a lookup table
		if tbl, ok := globalMapTable(g, mt); ok {
			return tbl
		}
	}
	if et := g.Type().Underlying().(*types.Pointer).Elem(); isError(et) {
		// package-level sentinel errors: a non-nil error. Created by errors.New in the package's init => an identity
		// of its own ("private!"); initialised from another package's variable => that variable's identity.
		id := "global!" + strings.NewReplacer("/", "_", ".", "_").Replace(n)
		if init := g.Pkg.Func("init"); init != nil {
			for _, b := range init.Blocks {
				for _, ins := range b.Instrs {
					if sto, ok := ins.(*ssa.Store); ok && sto.Addr == ssa.Value(g) {
						switch v := sto.Val.(type) {
						case *ssa.Call:
							if f := v.Call.StaticCallee(); f != nil && (f.String() == "errors.New" || f.String() == "fmt.Errorf") {
								id = "private!" + strings.NewReplacer("/", "_", ".", "_").Replace(n)
							}
						case *ssa.UnOp:
							if og, ok := v.X.(*ssa.Global); ok {
								id = "global!" + strings.NewReplacer("/", "_", ".", "_").Replace(og.String())
							}
						}
					}
				}
			}
		}
		return ErrV{NonNil: tTrue, ID: Sym(id, 64)}
	}
	if v, ok := globalInit[g]; ok {
		return v
	}
	if v, ok := e.evalGlobalInit(st, g); ok {
		globalInit[g] = v
		return v
	}
	fail("load of global %s not modelled", n)
	return nil
}

func (e *Engine) globalIndexAddr(st *State, g GlobalV, idx *Term) Val {
	fail("index of global array %s", g.G)
	return nil
}

// evalGlobalInit finds a `g = slicelit` initialisation in the package init and returns a slice over a fixed base.
func (e *Engine) evalGlobalInit(st *State, g *ssa.Global) (Val, bool) {
	init := g.Pkg.Func("init")
	if init == nil {
		return nil, false
	}
	for _, b := range init.Blocks {
		for _, ins := range b.Instrs {
			s, ok := ins.(*ssa.Store)
			if !ok || s.Addr != ssa.Value(g) {
				continue
			}
			switch v := s.Val.(type) {
			case *ssa.Const: // a scalar initialised from a constant (assumed never reassigned)
				if bvWidth(v.Type()) >= 0 && !isFloat(v.Type()) {
					e.warn("assumed: package-level variable %s keeps its initial value", g.String())
					return constVal(v), true
				}
			case *ssa.Slice: // slicelit: new [N]T then stores then slice
				alloc, ok := v.X.(*ssa.Alloc)
				if !ok {
					return nil, false
				}
				at := alloc.Type().Underlying().(*types.Pointer).Elem().Underlying().(*types.Array)
				vals := make([]*Term, at.Len())
				for _, ins2 := range b.Instrs {
					st2, ok := ins2.(*ssa.Store)
					if !ok {
						continue
					}
					ia, ok := st2.Addr.(*ssa.IndexAddr)
					if !ok || ia.X != ssa.Value(alloc) {
						continue
					}
					k, _ := constant.Int64Val(ia.Index.(*ssa.Const).Value)
					vals[k] = asTerm(constVal(st2.Val.(*ssa.Const)))
				}
				w := bvWidth(at.Elem())
				for k := range vals {
					if vals[k] == nil {
						vals[k] = BVu(0, w)
					}
				}
				return TableV{Name: g.Name(), Elems: vals, W: w}, true
			case *ssa.Convert: // []byte("literal")
				if c, ok := v.X.(*ssa.Const); ok && isString(c.Type()) {
					lit := strConst(constant.StringVal(c.Value))
					base := Sym("global!"+g.Name(), 64)
					s := SliceV{Base: base, Off: BVu(0, 64), Len: lit.Len, Cap: Sym("global!"+g.Name()+"!cap", 64), Elem: types.Typ[types.Uint8]}
					gtext[base.String()] = []Piece{Lit(constant.StringVal(c.Value))}
					return s, true
				}
			}
		}
	}
	return nil, false
}

var gtext = map[string][]Piece{}

// TableV is a constant lookup table (package-level slice literal of integers).
type TableV struct {
	Name  string
	Elems []*Term
	W     int
}

func (t TableV) lookup(idx *Term) *Term {
	if idx.IsConst() {
		return t.Elems[idx.Uint()]
	}
	r := t.Elems[len(t.Elems)-1]
	for k := len(t.Elems) - 2; k >= 0; k-- {
		r = Ite(Eq(idx, BVu(uint64(k), idx.W)), t.Elems[k], r)
	}
	return r
}

// absApp abstracts a recursive spec call as an uninterpreted application of its flattened arguments.
func (e *Engine) absApp(st *State, fn *ssa.Function, args []Val) Val {
	var ts []*Term
	var sorts []string
	byValue := false
	boxed := false
	for ai, a := range args {
		switch x := a.(type) {
		case *Term:
			ts = append(ts, x)
		case SliceV:
			ts = append(ts, x.Base, x.Off, x.Len)
		case PtrHeap:
			ts = append(ts, x.Ref)
			for _, p := range x.Path {
				ts = append(ts, BVu(uint64(p), 64))
			}
		case PtrElemH:
			ts = append(ts, x.S.Base, Add(x.S.Off, x.Idx))
			for _, p := range x.Path {
				ts = append(ts, BVu(uint64(p), 64))
			}
		case IfaceSym:
			ts = append(ts, x.ID)
		case PtrCell:
			// address of a local: a pure function sees only what it holds; the value travels with the
			// application (the cell belongs to the state of this evaluation only)
			held := getPath(st.cells[x.ID], x.Path)
			ts = append(ts, flattenVal(held)...)
			byValue = true
			if !boxed {
				args = append([]Val{}, args...)
				boxed = true
			}
			args[ai] = BoxV{held}
		case BoxV:
			ts = append(ts, flattenVal(x.V)...)
			byValue = true
		case StructV:
			ts = append(ts, flattenVal(x)...)
			byValue = true
		default:
			fail("absApp: argument %T", a)
		}
	}
	// the application depends on the heap it reads: pass the current heap arrays of all leaves of the types
	// reachable from the parameters (a deterministic list, so the arity never varies)
	// Heap dependence: spec functions observe pre-existing memory only, and every store into pre-existing
	// memory raises a frame obligation; so the application is keyed by the count of such stores (normally 0)
	// instead of carrying heap arrays as arguments (array-sorted UF arguments made pruning queries time out).
	_ = e.heapLeaves
	for _, t := range ts {
		sorts = append(sorts, sortOf(t))
	}
	res := fn.Signature.Results().At(0).Type()
	if w := bvWidth(res); w >= 0 {
		name := "rec_" + fn.Name()
		if byValue {
			name += fmt.Sprintf("_v%d", len(ts)) // a different flattening of the arguments: a different symbol
		}
		DeclareUF(name, sorts, sortOf(&Term{W: w}))
		t := UF(name, w, ts...)
		snap := make(map[string]*Term, len(st.heap))
		for k, v := range st.heap {
			snap[k] = v
		}
		if !e.opaque[fn.Name()] {
			// (opaque functions stay uninterpreted: no definitional axiom)
			ra := recApp{fn, args, t, snap}
			e.recApps[t.String()] = ra
			if _, ok := e.recTemplates[name]; !ok {
				e.recTemplates[name] = ra
			}
		}
		return t
	}
	if strings.HasSuffix(typeName(res), "vspec.Text") {
		return TextV{[]Piece{{K: "app", S: fn.Name(), Args: ts, Fn: fn, ArgV: args}}}
	}
	fail("absApp: result type %s", typeName(res))
	return nil
}

type recApp struct {
	fn   *ssa.Function
	args []Val
	t    *Term
	heap map[string]*Term // heap at the time the application was created
}

type heapLeaf struct{ name, sort string }

// heapLeaves enumerates, deterministically, every heap array that values of the function's parameter types can reach.
func (e *Engine) heapLeaves(fn *ssa.Function) []heapLeaf {
	if l, ok := e.leafCache[fn]; ok {
		return l
	}
	seen := map[string]bool{}
	var out []heapLeaf
	add := func(l loc, comp string, w int) {
		es := sortOf(&Term{W: w})
		sort := "(Array Ref " + es + ")"
		if l.kind == "E" {
			sort = "(Array Ref (Array I64 " + es + "))"
		}
		n := l.name(comp)
		if !seen[n] {
			seen[n] = true
			out = append(out, heapLeaf{n, sort})
		}
	}
	var walkVal func(l loc, t types.Type)
	var walkObj func(t types.Type)
	walkVal = func(l loc, t types.Type) {
		if w := bvWidth(t); w >= 0 {
			add(l, "v", w)
			return
		}
		switch u := t.Underlying().(type) {
		case *types.Pointer:
			add(l, "p", 64)
			walkObj(u.Elem())
		case *types.Slice:
			for _, c := range []string{"base", "off", "len", "cap"} {
				add(l, c, 64)
			}
			if bvWidth(u.Elem()) == 8 {
				if !seen["Bytes"] {
					seen["Bytes"] = true
					out = append(out, heapLeaf{"Bytes", bytesHeapSort})
				}
			} else if !seen["elem:"+typeName(u.Elem())] {
				seen["elem:"+typeName(u.Elem())] = true
				walkVal(loc{kind: "E", tn: typeName(u.Elem())}, u.Elem())
			}
		case *types.Basic:
			if isString(t) {
				for _, c := range []string{"base", "off", "len"} {
					add(l, c, 64)
				}
				if !seen["Bytes"] {
					seen["Bytes"] = true
					out = append(out, heapLeaf{"Bytes", bytesHeapSort})
				}
			}
		case *types.Struct:
			for i := 0; i < u.NumFields(); i++ {
				walkVal(l.sub(i), u.Field(i).Type())
			}
		case *types.Interface:
			if isError(t) {
				add(l, "nonnil", 0)
				add(l, "id", 64)
			} else {
				add(l, "iface", 64)
			}
		}
	}
	walkObj = func(t types.Type) {
		if seen["obj:"+typeName(t)] {
			return
		}
		seen["obj:"+typeName(t)] = true
		if _, ok := t.Underlying().(*types.Struct); ok {
			walkVal(loc{kind: "F", tn: typeName(t)}, t)
		}
	}
	for _, p := range fn.Params {
		switch u := p.Type().Underlying().(type) {
		case *types.Pointer:
			walkObj(u.Elem())
		case *types.Slice:
			walkVal(loc{kind: "F", tn: "param"}, p.Type())
		default:
			if isString(p.Type()) {
				walkVal(loc{kind: "F", tn: "param"}, p.Type())
			}
		}
	}
	// parameters that are slices/strings contribute only what they point to, not their own header arrays
	var filtered []heapLeaf
	for _, l := range out {
		if !strings.HasPrefix(l.name, "F_param") {
			filtered = append(filtered, l)
		}
	}
	sort.Slice(filtered, func(i, j int) bool { return filtered[i].name < filtered[j].name })
	e.leafCache[fn] = filtered
	return filtered
}

func (e *Engine) isRecursive(fn *ssa.Function) bool {
	if v, ok := e.recFns[fn]; ok {
		return v
	}
	r := false
	for _, b := range fn.Blocks {
		for _, ins := range b.Instrs {
			if c, ok := ins.(*ssa.Call); ok && c.Call.StaticCallee() == fn {
				r = true
			}
		}
	}
	e.recFns[fn] = r
	return r
}

// unfoldOnce evaluates the body of a recursive spec function one level deep.
func (e *Engine) unfoldOnce(st *State, fn *ssa.Function, args []Val) []Outcome {
	s2 := st.clone()
	for i, a := range args {
		if b, ok := a.(BoxV); ok {
			// a pointer argument that stood for the value it pointed to: give it a cell of its own here
			if i == 0 || true {
				args = append([]Val{}, args...)
			}
			args[i] = PtrCell{ID: s2.newCell(b.V)}
		}
	}
	s2.spec = true
	s2.goal = false
	savedFn, savedB, savedPaths := e.unfoldFn, e.unfoldBudget, e.paths
	e.unfoldFn, e.unfoldBudget = fn, 1
	outs := e.execFunc(s2, fn, args, nil, 1)
	e.unfoldFn, e.unfoldBudget, e.paths = savedFn, savedB, savedPaths
	return outs
}

// defAxioms returns definitional equations for the recursive scalar applications occurring in the terms (and, one
// level further, in those equations). The equation of an application depends only on the application (its
// arguments and the heap it was created in), so it is computed once.
func (e *Engine) defAxioms(st *State, terms []*Term) []*Term {
	var ax []*Term
	seen := map[string]bool{}
	visited := map[*Term]bool{}
	var found []string
	var walk func(t *Term)
	walk = func(t *Term) {
		if t == nil || t.C != nil || visited[t] {
			return
		}
		visited[t] = true
		if t.Op == "" {
			if t.Def != nil {
				// an abbreviated application is registered under its abbreviation
				if _, ok := e.recApps[t.Leaf]; ok && !seen[t.Leaf] {
					seen[t.Leaf] = true
					found = append(found, t.Leaf)
				}
				walk(t.Def)
			}
			if t.QDef != nil {
				walk(t.QDef)
			}
			return
		}
		if strings.HasPrefix(t.Op, "rec_") && !t.hasBound {
			if k := t.String(); !seen[k] {
				if _, ok := e.recApps[k]; !ok {
					// an application that came into being by instantiating a quantified fact: its argument values
					// are rebuilt from a registered application of the same function
					if tpl, ok2 := e.recTemplates[t.Op]; ok2 {
						if vs, ok3 := unflattenArgs(tpl.args, t.Args); ok3 {
							snap := make(map[string]*Term, len(st.heap))
							for hk, hv := range st.heap {
								snap[hk] = hv
							}
							e.recApps[k] = recApp{tpl.fn, vs, t, snap}
						}
					}
				}
				if _, ok := e.recApps[k]; ok {
					seen[k] = true
					found = append(found, k)
				}
			}
		}
		for _, a := range t.Args {
			walk(a)
		}
	}
	for _, t := range terms {
		walk(t)
	}
	for round := 0; round < 2; round++ {
		todo := found
		found = nil
		sort.Strings(todo)
		for _, k := range todo {
			axs, ok := e.recAxioms[k]
			if !ok {
				ra := e.recApps[k]
				base := st.clone()
				base.pc = nil
				base.heap = make(map[string]*Term, len(ra.heap))
				for hk, hv := range ra.heap {
					base.heap[hk] = hv
				}
				e.noPrune++ // definitional unfolding is independent of the path condition: no feasibility queries
				outs := e.unfoldOnce(base, ra.fn, ra.args)
				e.noPrune--
				for _, o := range outs {
					v := asTerm(o.ret[0])
					axs = append(axs, Implies(And(o.st.pc...), Eq(ra.t, v)))
				}
				e.recAxioms[k] = axs
			}
			ax = append(ax, axs...)
			if round == 0 {
				for _, a := range axs {
					walk(a)
				}
			}
		}
	}
	return ax
}

// derefLocals replaces pointers to locals by the values they hold (what a pure function of the pointer can see):
// a memo key must not identify two evaluations just because the same cell is pointed to on two different paths.
func (e *Engine) derefLocals(st *State, vs []Val) []Val {
	out := vs
	for i, v := range vs {
		if p, ok := v.(PtrCell); ok {
			if i == 0 || &out[0] == &vs[0] {
				out = append([]Val{}, vs...)
			}
			out[i] = TupleV{OpaqueV{"&"}, getPath(st.cells[p.ID], p.Path)}
		}
	}
	return out
}

func renderVals(vs []Val) string {
	var sb strings.Builder
	for _, v := range vs {
		switch x := v.(type) {
		case *Term:
			sb.WriteString(x.String())
		case SliceV:
			sb.WriteString(x.Base.String() + "," + x.Off.String() + "," + x.Len.String())
			if x.Arr != nil {
				sb.WriteString("@" + x.Arr.String())
			}
		case StructV:
			sb.WriteString("{" + renderVals(x.F) + "}")
		case TupleV:
			sb.WriteString("(" + renderVals([]Val(x)) + ")")
		default:
			sb.WriteString(fmt.Sprintf("%v", v))
		}
		sb.WriteByte(';')
	}
	return sb.String()
}

// heapDeps: names of heap array families a function may read, from the types reachable from its parameters.
func (e *Engine) heapDeps(fn *ssa.Function) map[string]bool {
	if d, ok := e.depCache[fn]; ok {
		return d
	}
	d := map[string]bool{}
	seen := map[string]bool{}
	var walk func(t types.Type)
	walk = func(t types.Type) {
		k := typeName(t)
		if seen[k] {
			return
		}
		seen[k] = true
		switch u := t.Underlying().(type) {
		case *types.Pointer:
			walk(u.Elem())
		case *types.Slice:
			if bvWidth(u.Elem()) == 8 {
				d["Bytes"] = true
			} else {
				d[loc{tn: typeName(u.Elem())}.name("")[2:]] = true
				walk(u.Elem())
			}
		case *types.Basic:
			if isString(t) {
				d["Bytes"] = true
			}
		case *types.Struct:
			d[loc{tn: typeName(t)}.name("")[2:]] = true
			for i := 0; i < u.NumFields(); i++ {
				walk(u.Field(i).Type())
			}
		case *types.Interface:
			d[loc{tn: typeName(t)}.name("")[2:]] = true
		}
	}
	for _, p := range fn.Params {
		walk(p.Type())
	}
	e.depCache[fn] = d
	return d
}

func isIfaceNotErr(t types.Type) bool {
	_, ok := t.Underlying().(*types.Interface)
	return ok && !isError(t)
}

func (e *Engine) mapLookup(st *State, fr *Frame, i *ssa.Lookup) Val {
	x := e.get(st, fr, i.X)
	if tbl, ok := x.(GlobalMapV); ok {
		key, ok := e.get(st, fr, i.Index).(SliceV)
		if !ok {
			fail("lookup in a package-level table with a non-string key")
		}
		w := bvWidth(tbl.ValT)
		val := BVu(0, w)
		found := tFalse
		for j := len(tbl.Keys) - 1; j >= 0; j-- {
			lit := tbl.Keys[j]
			c := Eq(key.Len, BVu(uint64(len(lit)), 64))
			for k := 0; k < len(lit); k++ {
				c = And(c, Eq(st.readByte(key, BVu(uint64(k), 64)), BVu(uint64(lit[k]), 8)))
			}
			val = Ite(c, BVu(tbl.Vals[j], w), val)
			found = Or(found, c)
		}
		if i.CommaOk {
			return TupleV{val, found}
		}
		return val
	}
	mv, ok := x.(MapV)
	if !ok {
		fail("lookup on %T", x)
	}
	m := st.objs[mv.ID].(*MapObj)
	k := mapKeyTerm(e.get(st, fr, i.Index))
	if st.trace != nil {
		st.trace.reads = append(st.trace.reads, traceRead{fmt.Sprintf("map|%d", mv.ID), k})
	}
	st.instantiate(fmt.Sprintf("map|%d", mv.ID), k)
	present := Select(m.Dom, k, 0)
	var v Val
	switch u := m.ValT.Underlying().(type) {
	case *types.Pointer:
		arr, ok := m.Vals["p"]
		if !ok {
			ks := sortOf(&Term{W: m.KeyW})
			arr = SymSort(fresh("mapval"), "(Array "+ks+" Ref)")
			m2 := *m
			m2.Vals = map[string]*Term{"p": arr}
			st.objs[mv.ID] = &m2
		}
		ref := Select(arr, k, 64)
		if m.Own && !st.spec {
			st.assumeT(Implies(present, ULt(alloc0, ref)))
		}
		v = PtrHeap{Ref: Ite(present, ref, BVu(0, 64)), Root: u.Elem()}
	case *types.Slice:
		// slice-valued map: one array per component of the slice header; a missing key yields the nil slice
		zero := BVu(0, 64)
		comp := func(c string) *Term {
			arr, ok := m.Vals[c]
			if !ok {
				fail("slice-valued map without component arrays")
			}
			return Ite(present, Select(arr, k, 64), zero)
		}
		sl := SliceV{Base: comp("base"), Off: comp("off"), Len: comp("len"), Cap: comp("cap"), Elem: u.Elem()}
		if m.Own && !st.spec {
			st.assumeT(Or(Eq(sl.Base, zero), ULt(alloc0, sl.Base)))
		}
		if !st.spec {
			lim := BVu(1<<40, 64)
			st.assumeT(And(SLe(zero, sl.Off), SLt(sl.Off, lim), SLe(zero, sl.Len), SLe(sl.Len, sl.Cap), SLt(sl.Cap, lim),
				Implies(Eq(sl.Base, zero), Eq(sl.Cap, zero))))
		}
		v = sl
	default:
		fail("map value type %s", typeName(m.ValT))
	}
	if i.CommaOk {
		return TupleV{v, present}
	}
	return v
}

func (e *Engine) mapUpdate(st *State, fr *Frame, i *ssa.MapUpdate) {
	mv, ok := e.get(st, fr, i.Map).(MapV)
	if !ok {
		fail("mapupdate on non-map")
	}
	m := st.objs[mv.ID].(*MapObj)
	k := mapKeyTerm(e.get(st, fr, i.Key))
	val := e.get(st, fr, i.Value)
	if sl, isSl := val.(SliceV); isSl {
		ks := sortOf(&Term{W: m.KeyW})
		nd := Store(m.Dom, k, tTrue)
		nd.Sort = "(Array " + ks + " Bool)"
		nv := map[string]*Term{}
		for c, t := range map[string]*Term{"base": sl.Base, "off": sl.Off, "len": sl.Len, "cap": sl.Cap} {
			na := Store(m.Vals[c], k, t)
			na.Sort = "(Array " + ks + " I64)"
			nv[c] = na
		}
		own := m.Own && e.valid(st, Or(Eq(sl.Base, BVu(0, 64)), ULt(alloc0, sl.Base)))
		st.objs[mv.ID] = &MapObj{Dom: nd, Vals: nv, KeyW: m.KeyW, ValT: m.ValT, Own: own, T: m.T}
		return
	}
	p, ok := val.(PtrHeap)
	if !ok {
		fail("map value %T", val)
	}
	ks := sortOf(&Term{W: m.KeyW})
	arr, ok := m.Vals["p"]
	if !ok {
		arr = SymSort(fresh("mapval"), "(Array "+ks+" Ref)")
	}
	nd := Store(m.Dom, k, tTrue)
	nd.Sort = "(Array " + ks + " Bool)"
	na := Store(arr, k, p.Ref)
	na.Sort = "(Array " + ks + " Ref)"
	own := m.Own && e.valid(st, ULt(alloc0, p.Ref))
	st.objs[mv.ID] = &MapObj{Dom: nd, Vals: map[string]*Term{"p": na}, KeyW: m.KeyW, ValT: m.ValT, Own: own, T: m.T}
}

// fullText renders the terms together with the bodies of every abbreviation they (transitively) mention.
func fullText(terms []*Term) string {
	var sb strings.Builder
	leaves := map[string]*Term{}
	for _, t := range terms {
		sb.WriteString(t.String())
		sb.WriteByte(' ')
		t.leaves(leaves)
	}
	for _, l := range leaves {
		if l.Def != nil {
			sb.WriteString(l.Def.String())
			sb.WriteByte(' ')
		}
	}
	return sb.String()
}

// simplifyIte prunes the branches of an ite chain that the current path condition decides (the merged evaluation
// of specification functions and table lookups is path-independent, so the same term is reused on every path and
// specialised here). It only ever replaces a term by one that is equal under the path condition.
func (e *Engine) simplifyIte(st *State, t *Term, depth int) *Term {
	if e.noPrune > 0 || depth > 24 || t.IsConst() {
		return t
	}
	c := t.core()
	if c.Op != "ite" {
		return t
	}
	cond := c.Args[0]
	if e.valid(st, cond) {
		return e.simplifyIte(st, c.Args[1], depth+1)
	}
	if e.valid(st, Not(cond)) {
		return e.simplifyIte(st, c.Args[2], depth+1)
	}
	a, b := e.simplifyIte(st, c.Args[1], depth+1), e.simplifyIte(st, c.Args[2], depth+1)
	if a == c.Args[1] && b == c.Args[2] {
		return t
	}
	return Ite(cond, a, b)
}

func (e *Engine) simplifyVals(st *State, vs []Val) []Val {
	if e.noPrune > 0 {
		return vs
	}
	out := make([]Val, len(vs))
	for i, v := range vs {
		if t, ok := v.(*Term); ok {
			out[i] = e.simplifyIte(st, t, 0)
		} else {
			out[i] = v
		}
	}
	return out
}

// runDefers executes the frame's deferred calls (last first) and continues after the RunDefers instruction.
func (e *Engine) runDefers(st *State, fr *Frame, b *ssa.BasicBlock, next int) []Outcome {
	if len(fr.defers) == 0 {
		return e.run(st, fr, b, next)
	}
	d := fr.defers[len(fr.defers)-1]
	fr.defers = fr.defers[:len(fr.defers)-1]
	var res []Outcome
	for _, o := range e.callCC(st, fr, d.call, &d) {
		f2 := fr
		if o.st != st {
			f2 = fr.clone()
		}
		res = append(res, e.runDefers(o.st, f2, b, next)...)
	}
	return res
}

func isSpecName(n string) bool {
	return strings.HasPrefix(n, "spec") || strings.HasPrefix(n, "Spec")
}

// mapKeyTerm: scalar keys are themselves; byte-array keys ([16]byte server ids) are the concatenation of their bytes.
func mapKeyTerm(v Val) *Term {
	switch x := v.(type) {
	case *Term:
		return x
	case ArrayV:
		// the bytes of one wide term, most significant first (a key obtained from an iteration or a quantifier and
		// handed on unchanged): that term itself
		if len(x.E) > 0 {
			var src *Term
			okAll := true
			n := len(x.E)
			for j, el := range x.E {
				b, isT := el.(*Term)
				if !isT || b.C != nil || len(b.Args) != 1 || b.Op != fmt.Sprintf("(_ extract %d %d)", 8*(n-j)-1, 8*(n-j)-8) {
					okAll = false
					break
				}
				if src == nil {
					src = b.Args[0]
				} else if src.String() != b.Args[0].String() {
					okAll = false
					break
				}
			}
			if okAll && src != nil && src.W == 8*n {
				return src
			}
		}
		var t *Term
		for _, el := range x.E {
			b := asTerm(el)
			if t == nil {
				t = b
			} else {
				t = rawConcat(t, b)
			}
		}
		return t
	}
	fail("map key %T", v)
	return nil
}

func mapKeyWidth(t types.Type) int {
	if w := bvWidth(t); w > 0 {
		return w
	}
	if a, ok := t.Underlying().(*types.Array); ok && bvWidth(a.Elem()) == 8 {
		return int(a.Len()) * 8
	}
	return -1
}

// newMapObj builds the ghost arrays of a map of the given type (fresh = unconstrained contents).
func newMapObj(mt *types.Map, freshContents bool) *MapObj {
	kw := mapKeyWidth(mt.Key())
	if kw <= 0 {
		fail("map with unsupported key type %s", typeName(mt.Key()))
	}
	ks := sortOf(&Term{W: kw})
	dom := &Term{Leaf: "((as const (Array " + ks + " Bool)) false)", W: -1, Sort: "(Array " + ks + " Bool)"}
	if freshContents {
		dom = SymSort(fresh("mapdom"), "(Array "+ks+" Bool)")
	}
	mo := &MapObj{Dom: dom, Vals: map[string]*Term{}, KeyW: kw, ValT: mt.Elem(), Own: !freshContents, T: mt}
	switch mt.Elem().Underlying().(type) {
	case *types.Pointer:
		mo.Vals["p"] = SymSort(fresh("mapval"), "(Array "+ks+" Ref)")
	case *types.Slice:
		for _, c := range []string{"base", "off", "len", "cap"} {
			mo.Vals[c] = SymSort(fresh("mapval_"+c), "(Array "+ks+" I64)")
		}
	}
	return mo
}

// unflattenArgs rebuilds argument values of the shape of tpl from the flattened terms ts (inverse of the
// flattening in absApp).
func unflattenArgs(tpl []Val, ts []*Term) ([]Val, bool) {
	i := 0
	next := func() *Term {
		if i >= len(ts) {
			return nil
		}
		t := ts[i]
		i++
		return t
	}
	var build func(v Val) (Val, bool)
	build = func(v Val) (Val, bool) {
		switch x := v.(type) {
		case *Term:
			t := next()
			return t, t != nil
		case SliceV:
			b, o, l := next(), next(), next()
			if l == nil {
				return nil, false
			}
			x.Base, x.Off, x.Len = b, o, l
			x.Arr = nil
			return x, true
		case StructV:
			f := make([]Val, len(x.F))
			for k := range x.F {
				fv, ok := build(x.F[k])
				if !ok {
					return nil, false
				}
				f[k] = fv
			}
			return StructV{T: x.T, F: f}, true
		case PtrHeap:
			r := next()
			for range x.Path {
				next()
			}
			if r == nil {
				return nil, false
			}
			return PtrHeap{Ref: r, Root: x.Root, Path: x.Path}, true
		case IfaceSym:
			t := next()
			x.ID = t
			return x, t != nil
		case ErrV:
			t := next()
			x.ID = t
			return x, t != nil
		case BoxV:
			in, ok := build(x.V)
			return BoxV{in}, ok
		case ListV, OpaqueV, NilV, IfaceV, FuncSym, MapV, TupleV:
			return v, true
		}
		return nil, false
	}
	out := make([]Val, len(tpl))
	for k, a := range tpl {
		v, ok := build(a)
		if !ok {
			return nil, false
		}
		out[k] = v
	}
	return out, i == len(ts)
}

// GlobalMapV: a package-level map[string]<integer type> that is a constant table (see loadGlobal).
type GlobalMapV struct {
	Keys []string
	Vals []uint64
	ValT types.Type
}

// globalMapTable reads the table out of the package initialiser: t = make(map...); t[k1] = v1; ...; *g = t, with
// constant keys and values only.
func globalMapTable(g *ssa.Global, mt *types.Map) (GlobalMapV, bool) {
	if !isString(mt.Key()) || bvWidth(mt.Elem()) <= 0 {
		return GlobalMapV{}, false
	}
	init := g.Pkg.Func("init")
	if init == nil {
		return GlobalMapV{}, false
	}
	var mk *ssa.MakeMap
	for _, b := range init.Blocks {
		for _, ins := range b.Instrs {
			if sto, ok := ins.(*ssa.Store); ok && sto.Addr == ssa.Value(g) {
				m, ok := sto.Val.(*ssa.MakeMap)
				if !ok || mk != nil {
					return GlobalMapV{}, false
				}
				mk = m
			}
		}
	}
	if mk == nil {
		return GlobalMapV{}, false
	}
	out := GlobalMapV{ValT: mt.Elem()}
	for _, ref := range *mk.Referrers() {
		switch u := ref.(type) {
		case *ssa.MapUpdate:
			kc, ok1 := u.Key.(*ssa.Const)
			vc, ok2 := u.Value.(*ssa.Const)
			if !ok1 || !ok2 || kc.Value == nil || vc.Value == nil {
				return GlobalMapV{}, false
			}
			v, _ := constant.Uint64Val(constant.ToInt(vc.Value))
			out.Keys = append(out.Keys, constant.StringVal(kc.Value))
			out.Vals = append(out.Vals, v)
		case *ssa.Store:
			if u.Addr != ssa.Value(g) {
				return GlobalMapV{}, false
			}
		case *ssa.DebugRef:
		default:
			return GlobalMapV{}, false
		}
	}
	return out, len(out.Keys) > 0
}

// Map iteration. A Go map is iterated in an unspecified order, each key present at the start exactly once (the
// functions under contract do not insert into or delete from the map they iterate). Model: the iterator carries
// the set of keys produced so far; next yields an arbitrary key that is present and has not been produced, or
// reports the end, in which case every present key has been produced.
type IterV struct{ ID int }
type IterObj struct {
	Map  int
	Seen *Term // Array K Bool
}

func (e *Engine) mapNext(st *State, fr *Frame, i *ssa.Next) Val {
	if i.IsString {
		fail("range over a string")
	}
	iv, ok := e.get(st, fr, i.Iter).(IterV)
	if !ok {
		fail("next on %T", e.get(st, fr, i.Iter))
	}
	it := st.objs[iv.ID].(*IterObj)
	m := st.objs[it.Map].(*MapObj)
	ks := sortOf(&Term{W: m.KeyW})
	k := Sym(fresh("iterkey"), m.KeyW)
	okT := Sym(fresh("iterok"), 0)
	// ok: a present key not produced before
	st.assumeT(Implies(okT, And(Select(m.Dom, k, 0), Not(Select(it.Seen, k, 0)))))
	// end: nothing is left (a named quantified fact without a memory read: instantiated at loop parameters and at
	// the skolem constants of goals)
	bv := BoundVar(fresh("k"), m.KeyW)
	body := Implies(Select(m.Dom, bv, 0), Select(it.Seen, bv, 0))
	qf := &Term{Leaf: fresh("qf"), W: 0, QDef: Forall(bv, body)}
	registerQFacts(qf, bv, body, nil)
	st.assumeT(Implies(Not(okT), qf))
	st.iterKeys = append(st.iterKeys[:len(st.iterKeys):len(st.iterKeys)], k)
	st.instantiate(fmt.Sprintf("map|%d", it.Map), k)
	st.instantiateLoose(k)
	ns := Store(it.Seen, k, tTrue)
	ns.Sort = "(Array " + ks + " Bool)"
	sel := &Term{Op: "ite", Args: []*Term{okT, ns, it.Seen}, W: -1, Sort: "(Array " + ks + " Bool)"}
	st.objs[iv.ID] = &IterObj{Map: it.Map, Seen: sel}
	// the key and the value as Go values
	tup := i.Type().(*types.Tuple)
	var kv Val = k
	if at, isArr := tup.At(1).Type().Underlying().(*types.Array); isArr {
		av := ArrayV{T: tup.At(1).Type()}
		n := int(at.Len())
		for j := 0; j < n; j++ {
			hi := m.KeyW - 8*j - 1
			av.E = append(av.E, Extract(hi, hi-7, k))
		}
		kv = av
	}
	var vv Val
	switch u := m.ValT.Underlying().(type) {
	case *types.Slice:
		// (the same term shape as a lookup m[k], so that facts stated through lookups are found syntactically)
		present := Select(m.Dom, k, 0)
		comp := func(c string) *Term { return Ite(present, Select(m.Vals[c], k, 64), BVu(0, 64)) }
		sl := SliceV{Base: comp("base"), Off: comp("off"), Len: comp("len"), Cap: comp("cap"), Elem: u.Elem()}
		zero, lim := BVu(0, 64), BVu(1<<40, 64)
		st.assumeT(Implies(okT, And(SLe(zero, sl.Off), SLt(sl.Off, lim), SLe(zero, sl.Len), SLe(sl.Len, sl.Cap), SLt(sl.Cap, lim),
			Implies(Eq(sl.Base, zero), Eq(sl.Cap, zero)))))
		if m.Own {
			st.assumeT(Implies(okT, Or(Eq(sl.Base, zero), ULt(alloc0, sl.Base))))
		} else {
			st.assumeT(Implies(okT, ULt(sl.Base, alloc0)))
			sl.Base.Pre = false
		}
		vv = sl
	case *types.Pointer:
		vv = PtrHeap{Ref: Select(m.Vals["p"], k, 64), Root: u.Elem()}
	default:
		fail("range over a map with values of type %s", typeName(m.ValT))
	}
	return TupleV{okT, kv, vv}
}
