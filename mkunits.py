#!/usr/bin/env python3
"""Generates units.json: which units (function + contract + case split) decide which property.

A *run* is one invocation of govc on one function of /repo (optionally with scalar parameters bound to
constants, which splits a big switch into independent sub-units). A property lists the runs whose
obligations decide it, with include/exclude patterns on obligation names where a run carries clauses
for several properties (e.g. CellBytes: `ensures:value` -> C10..C13, `ensures:len` -> C09,
`ensures:owner` -> C08/C13).
"""
import json, os

ROOT = os.path.dirname(os.path.abspath(__file__))
runs = {}
props = {}

TYPES = {
    'tiny': 1, 'short': 2, 'long': 3, 'float': 4, 'double': 5, 'timestamp': 7, 'longlong': 8, 'int24': 9,
    'date': 10, 'time': 11, 'datetime': 12, 'year': 13, 'newdate': 14, 'varchar': 15, 'bit': 16,
    'timestamp2': 17, 'datetime2': 18, 'time2': 19, 'json': 245, 'newdecimal': 246, 'enum': 247, 'set': 248,
    'tinyblob': 249, 'mediumblob': 250, 'longblob': 251, 'blob': 252, 'varstring': 253, 'string': 254,
    'geometry': 255,
}
NUMERIC = ['tiny', 'short', 'long', 'longlong', 'int24', 'float', 'double', 'year', 'bit', 'enum', 'set']
TEMPORAL = ['date', 'newdate', 'time', 'datetime', 'timestamp', 'timestamp2', 'datetime2', 'time2']
STRINGS = ['varchar', 'varstring', 'string', 'tinyblob', 'mediumblob', 'longblob', 'blob', 'geometry']

for n, t in TYPES.items():
    if n not in ('json', 'newdecimal'):
        # -bound 9: the only loop reached (SET inside CHAR metadata, at most 8 bytes) is unrolled with an
        # unwinding assertion, which is complete under the precondition (metadata & 0xff <= 8)
        runs['cell-' + n] = {'func': 'CellBytes', 'set': 'typ=%d' % t, 'unwind': 9}
    runs['len-' + n] = {'func': 'cellLength', 'set': 'typ=%d' % t}

# DECIMAL: the metadata domain is split by (leftover integer digits, leftover fraction digits); the numbers of
# full 9-digit groups, the sign and all byte contents stay symbolic inside each unit (loop invariants).
def dec_assume(ix, fx):
    p = "((_ extract 15 8) metadata)"
    sc = "((_ extract 7 0) metadata)"
    if fx is None:
        if ix is None:
            return "(= %s #x00)" % sc
        return "(and (= %s #x00) (= (bvurem %s #x09) #x%02x))" % (sc, p, ix)
    return "(and (not (= %s #x00)) (= (bvurem (bvsub %s %s) #x09) #x%02x) (= (bvurem %s #x09) #x%02x))" % (sc, p, sc, ix, sc, fx)

runs['dec-scale0'] = {'func': 'CellBytes', 'set': 'typ=246', 'assume': dec_assume(None, None), 'tag': 'scale=0', 'wall': 900}
DEC_ALL, DEC_DIAG = ['dec-scale0'], ['dec-scale0']
for ix in range(9):
    for fx in range(9):
        n = 'dec-i%d-f%d' % (ix, fx)
        runs[n] = {'func': 'CellBytes', 'set': 'typ=246', 'assume': dec_assume(ix, fx), 'tag': 'intg%%9=%d,scale%%9=%d,scale>0' % (ix, fx), 'wall': 900}
        DEC_ALL.append(n)
        if ix == fx:
            DEC_DIAG.append(n)

EV = ['IsValid', 'Type', 'Flags', 'Timestamp', 'ServerID', 'Length', 'NextPosition', 'IsFormatDescription', 'IsQuery',
      'IsRotate', 'IsXID', 'IsIntVar', 'IsRand', 'IsPreviousGTIDs', 'IsRowsQuery', 'IsTableMap', 'IsWriteRows',
      'IsUpdateRows', 'IsDeleteRows', 'Format', 'Rotate', 'IntVar', 'Rand', 'TableID', 'Query']
for m in EV:
    runs['ev-' + m] = {'func': 'binlogEvent.' + m}
runs['ev56-IsGTID'] = {'func': 'mysql56BinlogEvent.IsGTID'}
# bounded stand-in (natively compiled contract against the real function on generated inputs): never counted as proved
runs['tablemap-bounded'] = {'func': 'binlogEvent.TableMap', 'native_test': 'TestVCBoundedTableMap', 'cases': 4000, 'cases_thorough': 400000,
                            'min_obligations': 6,
                            'contract_functions': ['vc_binlogEvent_TableMap_requires', 'vc_binlogEvent_TableMap_ensures_ok', 'vc_binlogEvent_TableMap_ensures_names',
                                                   'vc_binlogEvent_TableMap_ensures_types', 'vc_binlogEvent_TableMap_ensures_metadata', 'vc_binlogEvent_TableMap_ensures_nulls']}
runs['evmaria-IsGTID'] = {'func': 'mariadbBinlogEvent.IsGTID'}
runs['ev56-StripChecksum'] = {'func': 'mysql56BinlogEvent.StripChecksum'}
runs['evmaria-StripChecksum'] = {'func': 'mariadbBinlogEvent.StripChecksum'}

for f in ['readLenEncInt', 'metadataRead', 'newBitmap', 'Bitmap.Count', 'Bitmap.Bit', 'Bitmap.BitCount']:
    runs['rbr-' + f] = {'func': f}

# ---- ROWS_EVENT body (C09) ----
# One unit per event type (case functions vc_case_Rows_t<code>; exhaustive under requires: obligation case-cover).
# The in-bounds preconditions of the callees inside the row loop (every NULL bitmap and every cell lies inside the
# buffer: the body is well formed) are assumed in this unit, not decided: excluded by name, listed in the evidence.
ROWS_CASES = ['t23', 't24', 't25', 't30', 't31', 't32']
for t in ROWS_CASES:
    runs['rows-' + t] = {'func': 'binlogEvent.Rows', 'case': 'vc_case_Rows_' + t, 'opaque': 'specCellLen,specCellOK,specCellText',
                         'exclude': ['call-pre:newBitmap@loop', 'call-pre:cellLength@loop'], 'skip_excluded': True, 'timeout': 120, 'jobs': 3, 'wall': 2400, 'min_obligations': 60}
# UPDATE rows events carry two images per row; the per-row image clause does not discharge within the time limit for
# them (two chained position functions): not decided for these two types, everything else of the unit is
for t in ('t24', 't31'):
    runs['rows-' + t]['exclude'] = runs['rows-' + t]['exclude'] + ['inv-step:loop1:rows']
runs['rows-t23']['covers'] = ','.join('vc_case_Rows_' + t for t in ROWS_CASES)
ROWS_RUNS = ['rows-' + t for t in ROWS_CASES]
ROWS_ASSUME = ["Rows(): every NULL bitmap and every cell of a row lies inside the event body (the preconditions of newBitmap and cellLength at the calls inside the row loop are assumed, i.e. the body is well formed); the two header bitmaps and the column count are in bounds by the unit's precondition"]

# ---- statement classification (C02) ----
STMT_KW = ['begin', 'commit', 'rollback', 'insert', 'update', 'delete', 'create', 'alter', 'drop', 'truncate', 'rename', 'set']
for k in STMT_KW:
    # -bound 12: the only loop is the one of the specification function over the keyword's letters (at most 8)
    runs['stmt-' + k] = {'pkg': '.', 'func': 'GetStatementCategory', 'case': 'vc_case_Stmt_' + k, 'unwind': 12}
STMT_OTHER = ['other%d' % n for n in range(9)] + ['otherlong']
for k in STMT_OTHER:
    # the other direction: an ASCII first word of this length that is no keyword (spec loops over at most 9 bytes)
    runs['stmt-' + k] = {'pkg': '.', 'func': 'GetStatementCategory', 'case': 'vc_case_Stmt_' + k, 'unwind': 12}
STMT_RUNS = ['stmt-' + k for k in STMT_KW + STMT_OTHER]

PARSER_OBS = ("binlogEvent_Format,binlogEvent_Rotate,binlogEvent_Query,binlogEvent_TableMap,binlogEvent_Rows,binlogEvent_TableID,"
              "GetStatementCategory,appendInsertEventFromRows,appendUpdateEventFromRows,appendDeleteEventFromRows,newError,Error_msgf,"
              "Streamer_binlogPosition,StatementType_String,NewMysqlTableName")
runs['parser'] = {'pkg': '.', 'func': 'Streamer.parseEvents', 'observer': PARSER_OBS,
                  'ifacetag': 'replication.BinlogEvent=replication.mysql56BinlogEvent', 'min_obligations': 1000, 'wall': 1500, 'timeout': 150}
for n, f in [('conn-read', 'slaveConnection.readBinlogEvent'), ('conn-reader', 'slaveConnection.startDumpFromBinlogPosition$1'),
             ('conn-new', 'newSlaveConnection'), ('conn-dump', 'slaveConnection.startDumpFromBinlogPosition'),
             ('stream', 'Streamer.Stream'), ('stream-error', 'Streamer.Error')]:
    runs[n] = {'pkg': '.', 'func': f}
# Stream assigns its own receiver's fields (ctx, sendTransaction, errChan): by design, not a frame violation
runs['stream']['exclude'] = ['frame:store-field']
for n, f in [('row-values', 'getValuesFromRow'), ('row-identifies', 'getIdentifiesFromRow')]:
    runs[n] = {'pkg': '.', 'func': f, 'opaque': 'specCellLen,specCellText,specCellOK', 'min_obligations': 80}
for n, f in [('build-insert', 'appendInsertEventFromRows'), ('build-update', 'appendUpdateEventFromRows'), ('build-delete', 'appendDeleteEventFromRows')]:
    runs[n] = {'pkg': '.', 'func': f, 'opaque': 'specCellLen,specCellText,specCellOK', 'min_obligations': 20}
BUILD_RUNS = ['build-insert', 'build-update', 'build-delete']
ROW_ASSUME = [
    "the table mapper's MysqlTable / MysqlColumn methods are pure observers (uninterpreted functions of the receiver); its column list has no nil entries",
    "CellBytes is used through its contract (verified per type in its own units); in the row units the cell specification functions are opaque (equal arguments give equal texts)",
    "columns appended to a row are separate objects that later iterations never write (each iteration writes only the object it has just allocated): 'every column was right when appended' (ghost accumulation, checked at every iteration) is therefore 'every column is right at the end'",
]
CONN_ASSUME = [
    "dependency contract (github.com/Breeze0806/mysql DumpConn, outside /repo): ReadPacket returns an error or a packet of at least one byte and may reuse its buffer; Exec / NoticeDump encode their arguments per the MySQL protocol; Close unblocks ReadPacket; HandleErrorPacket carries the master's code and message",
    "trusted contracts (assumed, bodies not verified): (*Error).msgf returns its receiver and changes only the message; SetBinlogPosition / binlogPosition store and load the position through atomic.Value (Load returns the last Store), mirrored by a ghost variable",
    "library contracts: sync.Once.Do runs its function once; context.WithCancel returns a child context that is done once cancel is called; channels are FIFO and deliver the value sent",
    "goroutines: the reader body is verified as a sequential unit against channel contracts (capacity, single sender and closer, send before close); nothing is decided about schedules, bounded time or data races",
]
PARSER_ASSUME = [
    "events received from the reader are mysql56BinlogEvent values (the only producer, readBinlogEvent, constructs exactly those)",
    "at the level of the dispatch loop the body parsers (Format, Rotate, Query, TableMap, Rows, TableID), GetStatementCategory, the row converters and the error constructors are pure functions of their arguments (uninterpreted); their own units verify them; panics inside body parsers on malformed bodies are outside this unit (observation O3)",
    "abstract callees and the table mapper return non-nil pointers / interfaces when they return a nil error; the package logger is non-nil",
    "the history-level statements (exactly-once over several attempts, labels as resume points) are the induction over attempts / events of these per-iteration and per-return obligations (paper lemma, DESIGN.md §4)",
]

GEN = "contract-based deductive verification: VCs generated from go/ssa of the real code against Go-function contracts in //go:build verif files, discharged by z3/cvc5"

def cell(names, exclude=None, include=None):
    out = []
    for n in names:
        r = {'use': 'cell-' + n}
        if exclude:
            r['exclude'] = exclude
        if include:
            r['include'] = include
        out.append(r)
    return out

SAFE = ['safe:.*', 'call-pre:.*', 'unwind:.*', 'inv-.*', 'frame:.*']

props['C10'] = {
    'level': 'proof',
    'claim': "Every obligation generated from the real CellBytes for TINY/SHORT/INT24/LONG/LONGLONG (both signedness modes), FLOAT, DOUBLE, YEAR, BIT, ENUM and SET is discharged for all byte contents and offsets: the value text equals the decimal text of the little-endian two's-complement / unsigned value (exponent-free shortest float text with the right bit size, 1900+year or 0000, raw bit bytes, member index, member bytes), and no index is out of bounds. Bit-vector semantics: every value of every width, not samples.",
    'note': "Trusted: govc's SSA→SMT translation, the solvers, strconv.Append{Int,Uint,Float} library contracts (digit generation is strconv's job); the signedness flag's provenance from the mapper column is proved in getValuesFromRow (C01/C15 units), not here. Termination not proved.",
    'technique': GEN,
    'trusted': ["strconv.AppendInt/AppendUint/AppendFloat produce the decimal text of their argument (library contract)"],
    'runs': cell(NUMERIC, exclude=['ensures:owner', 'ensures:len']) + [{'use': 'row-values', 'include': ['ensures:columns', 'inv-.*']}, {'use': 'row-identifies', 'include': ['ensures:columns', 'inv-.*']}],
    'assumptions': ROW_ASSUME,
}
props['C12'] = {
    'level': 'proof',
    'claim': "Every obligation generated from the real CellBytes for DATE, NEWDATE, TIME, DATETIME, TIMESTAMP and the fractional TIMESTAMP2/DATETIME2/TIME2 (fsp 0..6 symbolic) is discharged for all raw values: the text equals the canonical text computed from the documented packed layouts (independent formulation; e.g. TIME2's sign applies to the combined hms+fraction integer), including negative times and the zero timestamp; TIMESTAMP text is the instant's local broken-down time (time package contract).",
    'note': "Trusted: govc, solvers, fmt.Sprintf/Fprintf verb semantics for %0Nd/%.Nd/%v, time.Unix/Local/Date/Clock (local zone rendering is abstract: uninterpreted functions of the instant with range facts). Termination not proved.",
    'technique': GEN,
    'trusted': ["fmt.Sprintf/Fprintf for the verbs used (format string literal parsed by the generator)", "time.Unix(..).Local().Date()/Clock() yield the local broken-down time of the instant"],
    'runs': cell(TEMPORAL, exclude=['ensures:owner', 'ensures:len']),
}
props['C11'] = {
    'level': 'proof',
    'claim': "DECIMAL(p,s) decoder: with the numbers of full 9-digit groups, the sign and every byte symbolic, the three loops are proved against invariants over the documented decimal2bin layout (byte inversion for negatives; integer groups with leading zeros stripped; fraction groups zero-padded) and the result text equals [-] integer digits without leading zeros (a single 0 when none) [. exactly s fraction digits]; the result is never empty or nil. The metadata domain 1<=p<=65, 0<=s<=min(30,p) is covered by a case split on (p-s)%9 and s%9: the quick tier runs scale=0 (all leftover counts) plus the 9 diagonal (i,i) combinations with a fraction; the thorough tier runs all 81 combinations.",
    'note': "Trusted: govc, solvers, fmt.Fprintf %d/%0Nd and strconv.AppendUint library contracts. The quick tier's case split covers 10 of the 82 metadata classes (all code paths of the integer part, each fraction-leftover case once); the remaining classes are discharged only by the thorough tier. Termination not proved.",
    'technique': GEN,
    'explanation': "quick tier: 10 of 82 metadata classes (see claim); thorough tier: all 82",
    'runs': DEC_DIAG,
    'runs_thorough': DEC_ALL,
}
props['C13'] = {
    'level': 'proof',
    'claim': "For VARCHAR/VAR_STRING/STRING(CHAR,BINARY)/BLOB family/GEOMETRY and every declared length (prefix width 1..4 decided by metadata) and actual length incl. zero, the value is byte-for-byte data[pos+w : pos+w+l] and is non-nil (empty is not NULL); NULL/absent marking of columns is proved on getValuesFromRow/getIdentifiesFromRow.",
    'note': "Trusted: govc, solvers. The NULL/absent flags are obligations of the row-conversion units (root package).",
    'technique': GEN,
    'runs': cell(STRINGS, exclude=['ensures:len']) + [{'use': 'row-values', 'include': ['ensures:columns', 'ensures:shape', 'inv-.*']}, {'use': 'row-identifies', 'include': ['ensures:columns', 'ensures:shape', 'inv-.*']}],
    'assumptions': ROW_ASSUME,
}
props['C09'] = {
    'level': 'proof',
    'claim': "(1) Length agreement lemma: for every supported type and its full valid metadata domain and every data/pos, the real cellLength and the real CellBytes both return exactly specCellLen (the documented per-type length rule, never negative, never past the buffer), hence agree with each other on the size of every cell. (2) Rows(): for each of the six rows-event types (one unit each, exhaustive by obligation case-cover) the flags, column count and columns-present bitmaps are the documented header fields; the NULL bitmaps are as wide as the number of present columns (population count, proved through BitCount's contract); for WRITE and DELETE rows events (v1, v2) every row's image is exactly the window of the body from behind its NULL bitmap to the end of the last present non-NULL cell as the length rule gives it, rows follow each other without gap and the last one ends with the body (ghost accumulation per row, inner loops by invariant). (3) The row converters consume an image exactly as far as the same rule says.",
    'note': "Trusted: govc, solvers. Not decided: for UPDATE rows events (two images per row) the per-row image clause (inv-step:loop1:rows) does not discharge within the time limit and is excluded for t24 / t31 — header, bitmap widths, inner-loop invariants and safety are decided for them too. Assumed in the Rows units: every NULL bitmap and every cell lies inside the body (preconditions of newBitmap / cellLength inside the row loop, excluded by name and reported as assumed). The link 'Rows() output satisfies the precondition specImageOK of the row converters' additionally needs that the length rule only looks at the bytes from the cell's position on (translation invariance of specCellLen), which is by inspection of the rule, not machine-checked.",
    'technique': GEN,
    'runs': [{'use': 'len-' + n} for n in TYPES] + cell([n for n in TYPES if n not in ('json', 'newdecimal')], include=['ensures:len'] + SAFE)
            + ROWS_RUNS + ['rbr-readLenEncInt', 'rbr-newBitmap', 'rbr-Bitmap.Count', 'rbr-Bitmap.Bit', 'rbr-Bitmap.BitCount',
               {'use': 'row-values', 'include': ['ensures:consumed', 'inv-.*', 'call-pre:.*', 'safe:.*']},
               {'use': 'row-identifies', 'include': ['ensures:consumed', 'inv-.*', 'call-pre:.*', 'safe:.*']}],
    'assumptions': ROW_ASSUME + ROWS_ASSUME,
}
props['C08'] = {
    'level': 'proof',
    'claim': "readBinlogEvent hands on a fresh copy of the packet payload (never the driver's buffer), byte for byte. Parser: the change buffer is nil or memory allocated after the last accepted delivery (allocation-watermark invariant), so nothing the parser does later writes into a delivered transaction's event list; no store into pre-existing memory anywhere in the loop. Ownership clause of every CellBytes case: the returned bytes are a window of the caller's (event-private) buffer or memory allocated by the call, never a package-level buffer or other third-party memory; no store into pre-existing byte memory (frame).",
    'note': "Trusted: govc's allocation model (fresh objects are distinct from all pre-existing ones), solvers.",
    'technique': GEN,
    'runs': cell([n for n in TYPES if n not in ('json', 'newdecimal')], include=['ensures:owner', 'frame:.*']) + [{'use': 'parser', 'include': ['inv-.*', 'frame:.*']}, {'use': 'conn-read', 'include': ['ensures:copy', 'frame:.*', 'safe:.*']}],
    'assumptions': PARSER_ASSUME[:3],
}
props['C01'] = {
    'level': 'proof',
    'claim': "Glue obligations of end-to-end fidelity, each over the real code: the event handed to the parser is a byte-exact private copy of the packet payload (readBinlogEvent); the parser delivers exactly the buffered changes at commit points with the right labels and timestamp (parser unit, C02-C04); each rows event becomes one change event of the right kind (insert / update / delete) with the event's timestamp, the mapper's table name and one converted image per row, in order, in the list that belongs to the kind (three builder units); each row image is converted column by column — name and signedness from the mapper column of the same ordinal, type from the table map, absent / NULL / value (= the decoded cell text at the offset the length rule gives) — and consumed exactly (getValuesFromRow / getIdentifiesFromRow). The premises about cell texts, row splitting, table maps, headers and checksums are C08-C17 (own checks). 'Premises imply the end-to-end statement' is a structural induction over the event sequence written in DESIGN.md, not machine-checked.",
    'note': "Trusted: govc, solvers; the composition lemma is on paper; channel FIFO; the master emits the documented grammar. Configurations (checksum on/off, v1/v2 rows, 4/6-byte ids, partial images, GTID on/off) are symbolic parameters of the premises, not an enumeration.",
    'technique': GEN + "; glue obligations + premises proved by the other checks",
    'assumptions': PARSER_ASSUME + ROW_ASSUME,
    'runs': ['conn-read', 'parser', 'row-values', 'row-identifies'] + BUILD_RUNS,
}
props['C02'] = {
    'level': 'proof',
    'claim': "Loop invariant with ghost state over the real parseEvents (all event sequences, unbounded): grouping state (open transaction, number of buffered changes) matches the statement's step function; the handler is called only at commit points (XID/COMMIT, ROLLBACK with an empty transaction, or a change outside BEGIN..COMMIT), with exactly the buffered changes, at most once per event, and the buffer is empty again after an accepted delivery; ignorable events leave the grouping state untouched.",
    'note': "Trusted: govc, solvers. In the parser unit statement classification (GetStatementCategory) is an abstract function of the SQL text; its own 22 units decide (a) that each boundary / DML / DDL keyword is recognised in every mixture of ASCII upper and lower case, followed by a space or the end of the text (12 units), and (b) the other direction: a first word of ASCII bytes that is none of the twelve keywords is classified unknown (one unit per word length 0..8, every content, any rest of the statement; one unit for all longer words, where no keyword can match because strings.ToLower keeps the length of an ASCII string) (strings.IndexByte and strings.ToLower by library contract; the keyword table is read from the package initialiser). Not decided: first words with a non-ASCII byte, which strings.ToLower can map onto an ASCII keyword (U+212A KELVIN SIGN lower-cases to k, so such a statement is classified as a rollback by the real code). " + PARSER_ASSUME[1],
    'technique': GEN + "; inductive loop invariant with ghost variables and hook functions, callback contract at the handler call",
    'assumptions': PARSER_ASSUME,
    'runs': ['parser'] + STMT_RUNS,
}
props['C03'] = {
    'level': 'proof',
    'claim': "At the only handler call the transaction's start label equals the ghost accepted boundary (previous end label, initial position or rotation target), the end label is (current file, next-position field of the commit event as an unsigned 32-bit value); after an accepted delivery the boundary becomes that end label; a rotation sets both coordinates; nothing else moves the position. NextPosition/Rotate decode exactly (their own units).",
    'note': "Trusted: govc, solvers. 'Starting at an end label yields exactly the remaining transactions' is the paper lemma over these obligations (the master replays rotate + format description; table maps precede rows events in their own transaction).",
    'technique': GEN + "; loop invariant + callback contract",
    'assumptions': PARSER_ASSUME,
    'runs': ['parser', 'ev-NextPosition', 'ev-Rotate'],
}
props['C04'] = {
    'level': 'proof',
    'claim': "On every one of the return statements of parseEvents (cancellation, end of stream, invalid event, decode / lookup / handler failure, unsupported event, column-count mismatch) the position returned equals the ghost accepted boundary: the position after the last transaction for which the handler returned nil, or the initial / rotated position. Stream stores exactly that value for the next attempt.",
    'note': "Trusted: govc, solvers. The multi-attempt statement is the induction over attempts of this per-attempt contract (paper lemma).",
    'technique': GEN + "; ghost accepted-boundary variable, postcondition on every return path",
    'assumptions': PARSER_ASSUME + CONN_ASSUME[1:2],
    'runs': ['parser', {'use': 'stream', 'include': ['ensures:writeback', 'call-pre:.*', 'safe:.*']}],
}
props['C05'] = {
    'level': 'other',
    'explanation': "Sequential, per-path fragment of the property decided by deductive contracts: (a) Stream closes the connection exactly once on every path after one was obtained, and newSlaveConnection closes it on its own failure path; (b) the reader goroutine, on every exit path, sends exactly one non-nil reason on the error channel (capacity 1, so the send cannot block), then closes it, then closes the event channel, and its only blocking send sits in a select with a ctx.Done() alternative; (c) when Stream returns after the reader was started, the parser ended cleanly or the reader's context has been cancelled (release obligation); (d) Error() never receives from a nil channel; (e) the handler is called only synchronously from parseEvents (callback contract). NOT decided by this technique: bounded-time return, absence of data races, behaviour under every interleaving — sequential contracts have no scheduler or clock.",
    'claim': "Sequential fragment (a)-(e) of the termination / clean-up property as discharged obligations over the real Stream, newSlaveConnection, reader goroutine body and Error(); see coverage.explanation for what is and is not decided.",
    'note': "Not decided: schedules, bounded time, data races (no scheduler in sequential deductive contracts). Assumed: channel FIFO semantics, sync.Once, context, the driver's Close unblocking ReadPacket.",
    'technique': GEN + "; channel contracts with ghost state, call-trace contract on the connection, deferred-call modelling",
    'assumptions': CONN_ASSUME,
    'runs': ['conn-reader', 'conn-new', 'stream', {'use': 'stream-error', 'include': ['safe:.*']}, {'use': 'parser', 'include': ['callback-pre:.*', 'safe:.*']}],
}
props['C06'] = {
    'level': 'proof',
    'claim': "readBinlogEvent classifies exactly (transport error / EOF packet / ERR packet / event) and wraps the original reason; the reader publishes that reason (or the context's error on the cancel path) before closing its channels; Stream returns non-nil exactly when set-up or the parser failed; parseEvents returns non-nil on every handler / decode / lookup / unsupported-event path; Error() returns nil only for a closed channel, a cancellation or the master's EOF while the caller's context is live; the context Error() consults is the caller's own context of the attempt (Stream ensures s.ctx == ctx: a derived context that Stream itself cancels on return would hide every reason).",
    'note': "Known finding F5 (open): when the caller's context has been cancelled by the time Error() runs, any reason (lost connection, master error) is dropped — obligation ensures:filterLateCancel. Cross-goroutine ordering (send happens before the matching receive) is the channel's contract, assumed.",
    'technique': GEN + "; path postconditions and a channel value invariant",
    'assumptions': CONN_ASSUME,
    'runs': ['conn-read', 'conn-reader', 'stream', 'stream-error', {'use': 'parser', 'include': ['ensures:.*']}],
}
props['C07'] = {
    'level': 'proof',
    'claim': "Call-trace contract on the connection: newSlaveConnection issues exactly one Exec with \"SET @master_binlog_checksum=@@global.binlog_checksum\" and neither dumps nor reads; startDumpFromBinlogPosition issues exactly one NoticeDump(serverID, uint32(offset) with no truncation for offsets 0..2^32-1, file name, flags 0) before any read; Stream passes its configured 32-bit server id and the stored position (SetBinlogPosition's argument, or the previous attempt's write-back).",
    'note': "Assumed: the driver encodes NoticeDump / Exec arguments per the protocol (dependency outside /repo); atomic.Value's Load/Store contract.",
    'technique': GEN + "; call-trace ghost variables advanced by hooks on the interface methods",
    'assumptions': CONN_ASSUME,
    'runs': ['conn-new', 'conn-dump', 'stream'],
}
props['C17'] = {
    'level': 'proof',
    'claim': "IsValid() is proved equivalent, for every byte string shorter than 4 GiB, to `len >= 19 and LE32(ev[9:13]) == len`; every header accessor and classifier is proved panic-free on accepted buffers (weakest preconditions per accessor); in parseEvents every accessor call's precondition is an obligation that only the validity test establishes, and an event failing the test ends the attempt with a non-nil error, no handler call and the position at the accepted boundary.",
    'note': "Trusted: govc, solvers. The gate-before-use typestate in parseEvents is part of the parser unit.",
    'technique': GEN,
    'runs': [{'use': 'ev-' + m} for m in EV[:19]] + ['ev56-IsGTID', 'evmaria-IsGTID', 'parser'],
    'assumptions': PARSER_ASSUME[:3],
}
props['C15'] = {
    'level': 'proof',
    'claim': "Building blocks of table-map decoding and attribution, each proved for all inputs: length-encoded integers (1/3/4/9-byte forms, so counts >= 251), per-type metadata width and byte order (big-endian for NEWDECIMAL/ENUM/SET/STRING, little-endian for VARCHAR/BIT/VAR_STRING, one byte for the blob / fractional / float / JSON / geometry types), bitmap views, 4- and 6-byte table ids; rows are converted with the mapper column of the same ordinal (name, signedness) and the table map's type of the same ordinal; a mapper column-count mismatch is an error (row conversion and parser); the parser's table cache holds, for every table id, the latest table map announced for it and a mapper table obtained for that table map's names with as many columns (loop invariant part 'cache'). The table-map body parser as a whole (binlogEvent.TableMap: names, types window, metadata loop, nullability bitmap, independence of trailing optional metadata) is NOT proved: its contract (requires + five ensures clauses in replication/zz_vc_rows_verif.go) does not discharge in reasonable time, so a BOUNDED stand-in checks the natively compiled contract against the real function (obligations bounded:ok / names / types / metadata / nulls / panic): every type tuple of 0..2 columns over the 31 supported types, both table-id widths, with and without trailing bytes, plus 4000 (quick) / 400000 (thorough) seeded random well-formed bodies with 0..40 columns, names of 0..255 bytes, both encodings of the counts and 0..24 trailing bytes. These are labelled bounded and are not counted as proved.",
    'note': "Bounded, not proved: binlogEvent.TableMap as a whole (natively compiled contract on generated bodies; bound in replication/zz_vc_tablemap_bounded_verif_test.go). Malformed table maps are outside the claim.",
    'technique': GEN + "; bounded native evaluation of the contract for one function outside the generator's reach",
    'assumptions': ROW_ASSUME + PARSER_ASSUME[:3],
    'runs': ['rbr-readLenEncInt', 'rbr-metadataRead', 'rbr-newBitmap', 'ev-TableID',
             {'use': 'row-values', 'include': ['ensures:shape', 'ensures:columns', 'inv-.*']},
             {'use': 'row-identifies', 'include': ['ensures:shape', 'ensures:columns', 'inv-.*']},
             {'use': 'parser', 'include': ['ensures:.*', 'inv-.*', 'safe:.*']},
             'tablemap-bounded'],
}
props['C16'] = {
    'level': 'proof',
    'claim': "Each header accessor equals the documented little-endian field at its documented offset; event classification uses the documented type codes; Format/Rotate/IntVar/Rand/TableID decode exactly the documented body layout; Query yields the database, the SQL text and the character set of the last Q_CHARSET_CODE status variable found by walking the block with the documented size of every preceding variable (recursive spec function specQScan, loop invariant with a ghost cursor), or an error exactly when the text position or a variable overflows (server version = 50-byte field with trailing NULs removed, header-size table and checksum byte positions for any table size); StripChecksum returns the same bytes minus the last four for CRC32 and the unchanged event for off/undefined, so every accessor reads the same content with and without checksum.",
    'note': "Trusted: govc, solvers, bytes.TrimRight library contract (single-byte cutset). Header lengths >= 250 are excluded for TableID (8-bit offset arithmetic in the code; observation O4).",
    'technique': GEN,
    'runs': [{'use': 'ev-' + m} for m in EV] + ['ev56-IsGTID', 'evmaria-IsGTID', 'ev56-StripChecksum', 'evmaria-StripChecksum'],
}

for n, f in [('json-column', 'ColumnData.MarshalJSON'), ('json-event', 'StreamEvent.MarshalJSON'), ('json-tx', 'Transaction.MarshalJSON')]:
    runs[n] = {'pkg': '.', 'func': f, 'observer': 'ColumnType_String,StatementType_String'}
props['C20'] = {
    'level': 'other',
    'explanation': "Decided: the value handed to encoding/json.Marshal by each of the three custom marshalers has, under every JSON key of the statement, the right source field (positions, events in order, table, kind, SQL iff non-empty else both row-image lists, column name / type name / absent flag, data = JSON null exactly for a nil value and otherwise a string with the value's bytes, so the empty string stays distinct from NULL). Assumed, not decided: that encoding/json succeeds on these values and produces well-formed JSON with correct escaping and UTF-8 handling (reflection-based library outside the verifiable subset); ColumnType.String / StatementType.String are abstract here.",
    'claim': "Field-mapping postconditions of ColumnData / StreamEvent / Transaction.MarshalJSON proved over the real code; JSON well-formedness is encoding/json's contract (assumed).",
    'note': "encoding/json (reflection) is trusted; type-name tables are abstract.",
    'technique': GEN + "; postconditions over the value passed to the library call (by-name binding of locals)",
    'trusted': ["encoding/json.Marshal: succeeds on these value types and emits well-formed, correctly escaped JSON"],
    'runs': ['json-column', 'json-event', 'json-tx'],
}

# ---- binary JSON columns (C14) ----
CELL_OPQ = 'specCellLen,specCellText,specCellOK'
runs['cell-json'] = {'func': 'CellBytes', 'set': 'typ=245', 'unwind': 9, 'opaque': 'specJSONDocText,specJSONDocOK'}
runs['len-json']['opaque'] = 'specJSONDocText,specJSONDocOK'
runs['jsoncol-readVariableLength'] = {'func': 'readVariableLength', 'unwind': 6}
JSON_LEAF = ['readOffsetOrSize', 'printJSONLiteral', 'printJSONInt16', 'printJSONUint16', 'printJSONInt32', 'printJSONUint32',
             'printJSONInt64', 'printJSONUint64', 'printJSONDouble', 'printJSONString', 'printJSONDate', 'printJSONDateTime', 'printJSONTime']
for f in JSON_LEAF:
    runs['jsoncol-' + f] = {'func': f}
# the mutual recursion of the printers is cut at the contracts: in each unit the specification functions of the
# level below are opaque (uninterpreted; equal arguments give equal texts), which is all the unit needs
for f, opq in [('printJSONDecimal', ''), ('printJSONOpaque', ''),
               ('printJSONValue', ',specJObjText,specJArrText,specJObjOK,specJArrOK'),
               ('printJSONValueEntry', ',specJSONValueText,specJSONValueOK'),
               ('printJSONArray', ',specJEntryText,specJEntryOK'),
               ('printJSONObject', ',specJEntryText,specJEntryOK'),
               ('printJSONData', ',specJObjElems,specJArrElems,specJObjOK,specJArrOK')]:
    runs['jsoncol-' + f] = {'func': f, 'opaque': CELL_OPQ + opq}
JSON_RUNS = ['jsoncol-readVariableLength'] + ['jsoncol-' + f for f in JSON_LEAF] + ['jsoncol-' + f for f in
             ['printJSONDecimal', 'printJSONOpaque', 'printJSONValue', 'printJSONValueEntry', 'printJSONArray', 'printJSONObject', 'printJSONData']] + ['cell-json']
props['C14'] = {
    'level': 'proof',
    'claim': "For every well-formed binary JSON document (specJSONDocOK: every offset, count, size prefix and payload inside the buffer; literals, 16/32/64-bit integers, doubles, strings, opaque DATE/TIME/DATETIME/DECIMAL; small and large containers at any nesting depth, inlined and out-of-line values) the bytes CellBytes returns for a JSON cell are exactly specJSONDocText of the document — an independent recursive description of the rendered text written from the binary format (keys, values, order, nesting; signed/unsigned by type; inlining by format). Each of the 23 printer functions is verified against its piece of that description for all inputs (loops by invariant, recursion cut at contracts; the size-prefix loop is completely unrolled, 5 bytes being the format's maximum). Defect F11 (negative opaque TIME) found and repaired.",
    'note': "Trusted: govc, solvers, the specification itself (that specJSONDocText is 'the same document' is by reading it, ~150 lines in zz_vc_jsoncol_verif.go), strconv.Append{Int,Uint,Float} and fmt verbs (library contracts), the DECIMAL payload through CellBytes' own contract (C11). Strings and keys are copied verbatim (no escaping), as the property's quantifier excludes quote characters. Documents that are not well formed or hold unsupported opaque types are outside the claim (the code returns an error or panics on them; panics on corrupt input are not part of C14). Termination not proved.",
    'technique': GEN + "; buffer contracts over the text before the call (BufOld), guarded alternatives for conditional texts",
    'trusted': ["strconv.AppendInt/AppendUint/AppendFloat, fmt.Fprintf verbs %02d %04d %06d %d (library contracts)"],
    'runs': JSON_RUNS,
    'assumptions': ["the JSON value is well formed (specJSONDocOK) — what an independent writer of the format produces",
                    "in each unit the specification functions of the callee level are uninterpreted (their definitions are used in the callee's own unit)"],
}

# ---- GTID events and sets ----
runs['gtid-ev56'] = {'func': 'mysql56BinlogEvent.GTID'}
runs['gtid-evmaria'] = {'func': 'mariadbBinlogEvent.GTID'}
runs['gtid-iv-contains'] = {'func': 'interval.contains'}
runs['gtid-56-containsgtid'] = {'func': 'Mysql56GTIDSet.ContainsGTID', 'ifacetag': 'replication.GTID=replication.Mysql56GTID'}
runs['gtid-56-add'] = {'func': 'Mysql56GTIDSet.AddGTID', 'ifacetag': 'replication.GTID=replication.Mysql56GTID'}
runs['gtid-56-contains'] = {'func': 'Mysql56GTIDSet.Contains', 'ifacetag': 'replication.GTIDSet=replication.Mysql56GTIDSet'}
runs['gtid-56-equal'] = {'func': 'Mysql56GTIDSet.Equal', 'ifacetag': 'replication.GTIDSet=replication.Mysql56GTIDSet'}
runs['gtid-sidblock-read'] = {'func': 'NewMysql56GTIDSetFromSIDBlock', 'timeout': 40}
runs['gtid-prev56'] = {'func': 'mysql56BinlogEvent.PreviousGTIDs'}
runs['gtid-maria-contains'] = {'func': 'MariadbGTIDSet.ContainsGTID', 'ifacetag': 'replication.GTID=replication.MariadbGTID'}
runs['gtid-maria-containsset'] = {'func': 'MariadbGTIDSet.Contains', 'ifacetag': 'replication.GTIDSet=replication.MariadbGTIDSet'}
runs['gtid-maria-equal'] = {'func': 'MariadbGTIDSet.Equal', 'ifacetag': 'replication.GTIDSet=replication.MariadbGTIDSet'}
runs['gtid-maria-add'] = {'func': 'MariadbGTIDSet.AddGTID', 'ifacetag': 'replication.GTID=replication.MariadbGTID'}

props['C18'] = {
    'level': 'other',
    'explanation': "Partial, by contract on the real code. Decided for all inputs: membership (Mysql56GTIDSet.ContainsGTID) agrees with the set-of-pairs model — for every set whose interval list for the GTID's server id is in canonical form (non-empty intervals, pairwise ordered and disjoint) and every Mysql56GTID, the result is true exactly if some interval of that server id covers the sequence number (loop invariant over the interval list of unbounded length; the map is a symbolic total function from 16-byte ids to slices); interval.contains is interval inclusion. AddGTID never alters the set it was added to: no execution stores into memory that existed before the call (frame obligation at every store and every in-place append, map iteration modelled as 'an arbitrary present key not produced before'), and no index can go out of range. Contains (superset test), one direction: the answer false always comes with a witness — an interval of other (for some server id present in other) that no interval of set for the same server id contains — for canonical sets, three nested loops by invariant (monotone scan index: every interval of set that the scan has passed ends before the end of the interval of other handled last). Equal, both directions: the answer true means the same number of server ids and, for every server id of the receiver, an interval list in other of the same length that agrees at every position (outer invariant over the server ids the map iteration has produced so far, inner invariant over the positions compared; for canonical sets, where no list is empty, that is equality of the sets of pairs); the answer false always comes with a witness — a different number of server ids, or a server id of the receiver whose two lists differ in length or at a position. Not decided: the other direction of Contains (true => every interval of other is covered: the invariant over the server ids already produced and its preservation do not discharge in time — an existential under two nested universals; drafts are kept in the contract file under names the generator ignores), String, and that AddGTID's result is the union in canonical form (functional contracts over Go map iteration with nested interval scans were not written; no bounded stand-in was built).",
    'claim': "Membership test of MySQL 5.6 GTID sets agrees with the mathematical model for all canonical sets; AddGTID never writes the receiver's memory (frame) and is panic-free; a false answer of Contains always has an uncovered interval as witness; Equal is list-wise equality for every server id (both directions); the true direction of Contains, String and AddGTID's result are not covered.",
    'note': "Trusted: govc (incl. its map model: a map value is a total function with a domain predicate), solvers. The dynamic type of the GTID argument is fixed to Mysql56GTID by the unit (other types return false on the first line of the function).",
    'technique': GEN,
    'runs': ['gtid-iv-contains', 'gtid-56-containsgtid', 'gtid-56-add', 'gtid-56-contains', 'gtid-56-equal'],
    'assumptions': ["the GTID / GTIDSet argument has dynamic type Mysql56GTID / Mysql56GTIDSet (unit parameter -ifacetag; any other dynamic type returns on the first lines)", "a Go map is iterated in some order, each key present at the start exactly once (the functions do not insert into or delete from the map they iterate)"],
}
props['C19'] = {
    'level': 'other',
    'explanation': "Partial, by contract on the real code. Decided for all inputs: (a) GTID events decode to the identifiers the master wrote — for every event body of sufficient length and every valid format, mysql56BinlogEvent.GTID returns the 16 server-id bytes at header+1 and the little-endian sequence number at header+17, mariadbBinlogEvent.GTID returns sequence / domain from the body, the server id from the common header and the begin flag from FL_STANDALONE; (b) MariadbGTIDSet.ContainsGTID compares sequence numbers within the GTID's domain (true iff the entry of that domain has reached the sequence number, false if the domain is absent); (b') MariadbGTIDSet.Contains: true exactly if every position of the other set is reached in its domain (a false answer comes with the position that is not; both directions by loop invariant, through ContainsGTID's contract); MariadbGTIDSet.Equal is position-wise equality of the two lists; (c) MariadbGTIDSet.AddGTID on a set with one position per domain returns a set that differs from the receiver exactly at that domain (greater of the two positions) or has the GTID appended, and never writes the receiver's memory (frame obligations; defect F12 repaired). (d) the SID-block reader: for every block with the documented layout whose intervals are ones the writer emits (1 <= start < stored exclusive end, as unsigned numbers — which includes the stored end 2^63), decoding succeeds and every interval appended to the result is (start, stored end - 1) of the 16 bytes just read under the server id just read (bytes.Reader / binary.Read by library contract; position invariants over a recursive layout function). Not decided: text round trips (String / Parse*, strconv and strings parsing, fmt, the flavor registry maps built in init), the SID-block writer (map iteration + sort) and hence the round trip as a whole. (e) A MySQL 5.6 previous-GTIDs event decodes its body through that reader (succeeds for every well-formed body).",
    'claim': "GTID event decoding (both flavors), MariaDB set containment and copy-on-add, and the SID-block reader proved for all inputs; textual forms and the SID-block writer not covered.",
    'note': "Trusted: govc, solvers, encoding/binary model. The dynamic type of the GTID argument is fixed to MariadbGTID in the set units.",
    'technique': GEN,
    'runs': ['gtid-ev56', 'gtid-evmaria', 'gtid-maria-contains', 'gtid-maria-add', 'gtid-maria-containsset', 'gtid-maria-equal', 'gtid-sidblock-read', 'gtid-prev56'],
    'assumptions': ["the GTID argument has dynamic type MariadbGTID in the set units (unit parameter -ifacetag); another dynamic type returns false / the receiver on the first lines of these functions"],
}

NA = {
}

units = {
    'trusted_base': [
        "govc: SSA-to-SMT semantics of the Go subset (DESIGN.md §3.1) and the text-piece rules (§3.4)",
        "golang.org/x/tools v0.29.0 go/ssa construction (naive form) of /repo's working tree with -tags verif",
        "SMT solvers: an unsat answer from z3 5.1.0 (z3-new), cvc5 1.0.3 or z3 4.8.12",
        "Go compiler and runtime for the natively compiled contract clauses used in replay",
    ],
    'assumptions': [
        "memory allocation never fails; slices are shorter than 2^40 elements",
        "termination is not proved (partial correctness)",
        "machine integers are modelled exactly as bit-vectors of the Go type's width (nothing mathematical)",
    ],
    'hook_commits': os.popen("git -C /repo log --reverse --format=%h --grep='^verif:'").read().split(),
    'notes': "All checks are ./check <id>; contracts live in /repo under //go:build verif (zz_vc_*_verif.go, zz_contracts_verif.go, internal/vspec).",
    'runs': runs,
    'properties': props,
    'not_applicable': NA,
}
json.dump(units, open(os.path.join(ROOT, 'units.json'), 'w'), indent=1)
print('units.json:', len(runs), 'runs,', len(props), 'properties')
