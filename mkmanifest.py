#!/usr/bin/env python3
"""Regenerates MANIFEST.json from units.json (single source of truth for what is claimed)."""
import json, os
ROOT = os.path.dirname(os.path.abspath(__file__))
u = json.load(open(os.path.join(ROOT, 'units.json')))
props = [json.loads(l) for l in open(os.path.join(ROOT, 'properties.jsonl'))]
checks, na = [], []
for p in props:
    pid = p['id']
    spec = u['properties'].get(pid)
    if spec is None or spec.get('not_applicable'):
        reason = (spec or {}).get('not_applicable') or u.get('not_applicable', {}).get(pid) or 'no check built yet in this revision'
        na.append({'property_id': pid, 'reason': reason})
        continue
    checks.append({
        'property_id': pid,
        'quick_cmd': './check %s --tier quick' % pid,
        'thorough_cmd': './check %s --tier thorough' % pid,
        'evidence_file': 'evidence/%s.json' % pid,
        'replay_cmd_template': './check --replay {path}',
        'engine': 'govc',
        'level_claimed': {'category': spec.get('level', 'proof'), 'text': spec['claim'], 'design_ref': spec.get('design_ref', 'DESIGN.md §4 ' + pid)},
        'level_note': spec['note'],
        'technique': spec.get('technique', 'contract-based deductive verification: weakest-precondition style VCs from go/ssa of the real code, discharged by z3/cvc5'),
    })
m = {
    'version': 1,
    'setup_cmd': 'cd /verif/govc && GOFLAGS=-mod=vendor GOPROXY=off GOSUMDB=off GOTOOLCHAIN=local go build -o ../bin/govc .',
    'hooks': {
        'guard': 'verif',
        'enable': 'go build tag: -tags verif (contract files zz_contracts_verif.go, internal/vspec are //go:build verif)',
        'baseline_off_cmd': 'cd /repo && GOFLAGS=-mod=mod GOPROXY=off GOSUMDB=off go test -vet=off -count=1 -timeout 25m ./...',
        'source_commits': u.get('hook_commits', []),
        'add_only': True,
    },
    'engines': [{'name': 'govc', 'path': 'govc/', 'serves_properties': [c['property_id'] for c in checks],
                 'kind_free_text': 'self-written VC generator over go/ssa (naive form) of the real code; contracts are Go functions in //go:build verif files of /repo; obligations discharged by z3-new 5.1.0 / cvc5 1.0.3 / z3 4.8.12'}],
    'checks': checks,
    'not_applicable': na,
    'notes': u.get('notes', ''),
}
json.dump(m, open(os.path.join(ROOT, 'MANIFEST.json'), 'w'), indent=1)
print('wrote MANIFEST.json:', len(checks), 'checks,', len(na), 'not applicable')
