#!/usr/bin/env python3
# validates MANIFEST.json and evidence/*.json against the schemas in /root/.vp (development helper)
import json, sys, glob
import jsonschema
m = json.load(open('/verif/MANIFEST.json'))
jsonschema.validate(m, json.load(open('/root/.vp/MANIFEST.schema.json')))
print('MANIFEST ok:', len(m['checks']), 'checks,', len(m.get('not_applicable', [])), 'not applicable')
es = json.load(open('/root/.vp/EVIDENCE.schema.json'))
for f in sorted(glob.glob('/verif/evidence/*.json')):
    ev = json.load(open(f))
    jsonschema.validate(ev, es)
    c = ev['coverage']
    print(f.split('/')[-1], ev['level'], c.get('obligations'), c.get('discharged'), 'viol', ev.get('violations'))
