#!/usr/bin/env python3
"""seed.py <worktree> <property> <m1|m2> [--checks C10,C09]
Confirms a sub-agent's seeded defect (suite passes with it, demo fails with it and passes without it) in the
agent's scratch worktree, stores it under /verif/seeded/<property>-<m>/, then applies it to /repo, runs the
given checks (default: the property's own check) and undoes it. Prints which checks raised a VIOLATION."""
import json, os, re, shutil, subprocess, sys
ENV = dict(os.environ, GOFLAGS='-mod=mod', GOPROXY='off', GOSUMDB='off', GOTOOLCHAIN='local')

def sh(cmd, cwd, timeout=1800):
    p = subprocess.run(cmd, shell=True, cwd=cwd, env=ENV, capture_output=True, text=True, timeout=timeout)
    return p.returncode, p.stdout + p.stderr

def main():
    wt, prop, m = sys.argv[1:4]
    checks = [prop]
    if '--checks' in sys.argv:
        checks = sys.argv[sys.argv.index('--checks') + 1].split(',')
    stored = '--stored' in sys.argv  # re-evaluate a change already confirmed and kept under /verif/seeded
    if stored:
        return evaluate('%s-%s' % (prop, m), checks, json.load(open('/verif/seeded/%s-%s/meta.json' % (prop, m))))
    diff = os.path.join(wt, m + '.diff')
    demo = os.path.join(wt, 'demo', 'zz_demo_%s_test.go' % m)
    src = open(demo).read()
    pkg = re.search(r'^package (\w+)', src, re.M).group(1)
    pkgdir = '.' if pkg.startswith('gobinlog') else 'replication'
    sid = '%s-%s' % (prop, m)
    out = os.path.join('/verif/seeded', sid)
    meta = {'id': sid, 'property': prop, 'demo_package_dir': pkgdir, 'ran': []}
    # -- confirm in the scratch worktree
    sh('git checkout -- . && git clean -fdq -e demo -e "*.diff" -e MUTANTS.md', wt)
    if os.path.exists(os.path.join(wt, 'demo', 'go.mod')):
        pass
    target = os.path.join(wt, pkgdir, 'zz_demo_%s_test.go' % m)
    shutil.copy(demo, target)
    test = 'TestDemo' + m.upper().replace('M', 'M')
    test = 'TestDemoM' + m[1:]
    rc0, o0 = sh('go test -vet=off -count=1 -run "^%s$" ./%s' % (test, pkgdir), wt)
    meta['ran'].append({'cmd': 'original: go test -run %s ./%s' % (test, pkgdir), 'rc': rc0})
    rc, o = sh('git apply %s' % diff, wt)
    if rc != 0:
        print('patch does not apply', o); return 2
    rcb, ob = sh('go build ./... ', wt)
    os.rename(target, target + '.off')
    hide = os.path.join(wt, 'demo')
    os.rename(hide, os.path.join(wt, '_demo'))
    rcs, os_ = sh('go test -vet=off -count=1 ./...', wt)
    os.rename(os.path.join(wt, '_demo'), hide)
    os.rename(target + '.off', target)
    rc1, o1 = sh('go test -vet=off -count=1 -run "^%s$" ./%s' % (test, pkgdir), wt)
    meta['ran'] += [{'cmd': 'mutant: go build ./...', 'rc': rcb}, {'cmd': 'mutant: go test ./... (existing suite)', 'rc': rcs},
                    {'cmd': 'mutant: go test -run %s' % test, 'rc': rc1, 'tail': o1[-600:]}]
    os.remove(target)
    sh('git checkout -- .', wt)
    ok = rc0 == 0 and rcb == 0 and rcs == 0 and rc1 != 0
    meta['confirmed'] = ok
    print('%s: original demo rc=%d, build rc=%d, suite rc=%d, demo with change rc=%d -> %s' % (sid, rc0, rcb, rcs, rc1, 'CONFIRMED' if ok else 'REJECTED'))
    if not ok:
        print(o0[-500:], os_[-500:], o1[-500:])
        return 1
    os.makedirs(out, exist_ok=True)
    shutil.copy(diff, os.path.join(out, 'patch.diff'))
    shutil.copy(demo, os.path.join(out, os.path.basename(demo)))
    md = os.path.join(wt, 'MUTANTS.md')
    if os.path.exists(md):
        shutil.copy(md, os.path.join(out, 'AGENT_NOTES.md'))
    return evaluate(sid, checks, meta)


def evaluate(sid, checks, meta):
    out = os.path.join('/verif/seeded', sid)
    # -- run the checks against a scratch copy of /repo's HEAD with the change applied (never /repo itself here,
    #    so that work on /repo can go on; the registered checks themselves always run on /repo)
    scratch = '/tmp/seedrepo-%s' % sid
    sh('git worktree remove --force %s; git worktree add --detach -q %s HEAD' % (scratch, scratch), '/repo')
    rc, o = sh('git apply %s' % os.path.join(out, 'patch.diff'), scratch)
    caught = {}
    if rc != 0:
        print('patch does not apply to the current /repo HEAD (needs porting):', o[-300:])
        sh('git worktree remove --force %s' % scratch, '/repo')
        meta['needs_porting'] = True
        json.dump(meta, open(os.path.join(out, 'meta.json'), 'w'), indent=1)
        return 3
    env2 = 'GOVC_REPO=%s GOVC_OUT=/tmp/seedout-%s GOVC_EVIDENCE=/tmp/seedout-%s/evidence' % (scratch, sid, sid)
    try:
        for c in checks:
            rc, o = sh('%s ./check %s' % (env2, c), os.environ.get('VERIF_ROOT', '/verif'), timeout=3600)
            vio = [l for l in o.splitlines() if l.startswith('VIOLATION')]
            caught[c] = {'rc': rc, 'violations': vio[:5], 'n': len(vio), 'summary': o.strip().splitlines()[-1] if o.strip() else ''}
            print('  check %s: rc=%d, %d VIOLATION lines%s' % (c, rc, len(vio), (' e.g. ' + vio[0]) if vio else ''))
    finally:
        sh('git worktree remove --force %s' % scratch, '/repo')
        shutil.rmtree('/tmp/seedout-%s' % sid, ignore_errors=True)
    meta.setdefault('checks', {}).update(caught)
    caught = meta['checks']
    meta['detected_by'] = [c for c, v in caught.items() if v['rc'] == 1]
    old = {}
    mp = os.path.join(out, 'meta.json')
    if os.path.exists(mp):
        old = json.load(open(mp))
    old.update(meta)
    json.dump(old, open(mp, 'w'), indent=1)
    return 0

sys.exit(main())
