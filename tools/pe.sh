#!/bin/sh
# development helper: run the parser unit
OBS="binlogEvent_Format,binlogEvent_Rotate,binlogEvent_Query,binlogEvent_TableMap,binlogEvent_Rows,binlogEvent_TableID,GetStatementCategory,appendInsertEventFromRows,appendUpdateEventFromRows,appendDeleteEventFromRows,newError,Error_msgf,Streamer_binlogPosition,StatementType_String,NewMysqlTableName"
exec timeout 900 ${GOVC:-/verif/bin/govc} -pkg . -func Streamer.parseEvents -ifacetag replication.BinlogEvent=replication.mysql56BinlogEvent -observer $OBS "$@"
