#!/usr/bin/env python3
"""Prints the markdown table of seeded changes from seeded/*/meta.json."""
import json, glob, os, re
rows = []
for d in sorted(glob.glob(os.path.join(os.path.dirname(os.path.abspath(__file__)), '..', 'seeded', '*'))):
    mf = os.path.join(d, 'meta.json')
    if not os.path.exists(mf):
        continue
    m = json.load(open(mf))
    what = m.get('what', '')
    det = []
    for pid, c in sorted(m.get('checks', {}).items()):
        obl = sorted({re.sub(r'-\d+\.json.*$', '', v.split('replay/')[-1].split('/', 1)[-1]) for v in c.get('violations', [])})
        if c.get('rc') == 1:
            det.append('%s: %s' % (pid, ', '.join(obl[:3]) + (' …' if len(obl) > 3 else '')))
        elif c.get('rc') not in (0, 1):
            det.append('%s: tool error (construct outside the subset) — counted as not caught' % pid)
    rows.append((m['id'], what, '**caught** — ' + '; '.join(det) if any(c.get('rc') == 1 for c in m.get('checks', {}).values()) else 'not caught' + (' (' + '; '.join(det) + ')' if det else '')))
print('| change | what it does | result (failed obligations) |')
print('|---|---|---|')
for r in rows:
    print('| %s | %s | %s |' % r)
