#!/bin/sh
# benign.sh: run the checks against the four property-preserving batches in seeded/benign (must all exit 0)
ROOT=${VERIF_ROOT:-/verif}
bad=0
run() {
  P=$1; shift
  for id in "$@"; do
    out=$(sh $ROOT/tools/mut.sh $ROOT/seeded/benign/$P $ROOT/check $id --tier quick 2>&1); rc=$?
    echo "$out" | tail -1; echo "  $P $id rc=$rc"
    [ $rc -eq 0 ] || bad=1
  done
}
run b1.diff C02 C03 C04 C10 C12 C19
run b2.diff C04 C05 C06 C07 C08 C09 C13
run b3.diff C01 C06 C09 C18
run b4.diff C09 C11 C14
exit $bad
