#!/usr/bin/env python3
"""Assembles DESIGN.md: the as-built section (asbuilt_head.md, with the table of seeded changes generated from
seeded/*/meta.json) followed by the design sections (design_body.md: §1–§11 and appendices, written before the code
and annotated where the build deviated)."""
import os, subprocess
root = os.path.join(os.path.dirname(os.path.abspath(__file__)), '..')
head = open(os.path.join(root, 'asbuilt_head.md')).read()
table = subprocess.run(['python3', os.path.join(root, 'tools', 'seedtable.py')], capture_output=True, text=True).stdout
head = head.replace('@@SEEDTABLE@@', table.strip())
body = open(os.path.join(root, 'design_body.md')).read()
open(os.path.join(root, 'DESIGN.md'), 'w').write(head + '\n---------------------------------------------------------------------------\n\n' + body)
print('DESIGN.md written:', len((head + body).splitlines()), 'lines')
