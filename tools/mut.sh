#!/bin/sh
# mut.sh <patch> <command...>: run a command with GOVC_REPO pointing at a scratch worktree of /repo HEAD + patch
P=$1; shift
S=/tmp/mutwt-$$
git -C /repo worktree add --detach -q $S HEAD || exit 3
git -C $S apply "$P" || { git -C /repo worktree remove --force $S; echo "patch does not apply"; exit 3; }
GOVC_REPO=$S GOVC_OUT=/tmp/mutout-$$ GOVC_EVIDENCE=/tmp/mutout-$$/evidence REPO=$S "$@"
rc=$?
git -C /repo worktree remove --force $S
rm -rf /tmp/mutout-$$
exit $rc
