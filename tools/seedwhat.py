#!/usr/bin/env python3
"""Copies the one-line description of each seeded change from the authoring agent's MUTANTS.md (heading '## m<k> …')
into seeded/<id>-m<k>/meta.json ('what'). Run while the agents' scratch worktrees (/tmp/wt/<id>) still exist."""
import json, glob, os, re, sys
root = os.path.join(os.path.dirname(os.path.abspath(__file__)), '..', 'seeded')
for d in sorted(glob.glob(os.path.join(root, '*'))):
    mf = os.path.join(d, 'meta.json')
    if not os.path.exists(mf):
        continue
    m = json.load(open(mf))
    pid, mk = m['id'].split('-')
    src = '/tmp/wt/%s/MUTANTS.md' % pid
    if not os.path.exists(src):
        continue
    for line in open(src):
        g = re.match(r'^##\s+%s\s*[—–-]+\s*(.*)$' % mk, line.strip())
        if g:
            w = g.group(1)
            w = re.sub(r'\s*\(`[^)]*\)\s*$', '', w).strip().replace('|', '/')
            m['what'] = w
            json.dump(m, open(mf, 'w'), indent=1)
            break
